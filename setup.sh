#!/bin/bash
# Build every variant of the code under test from /repo's working tree (offline).
cd "$(dirname "$0")"
export CARGO_NET_OFFLINE=true
PY=/root/.pyenv/versions/3.11.7/bin/python3
set -e
$PY -m vlib.build rel dbg asan
# warm the Miri build (sysroot + deps); failure here is not fatal for the native checks
$PY - <<'PYEOF' || echo "warning: miri warm-up failed"
from vlib import runner
p = runner.run_miri("ldrive", [], stdin=b"", timeout=1500)
print("miri warm-up rc", p.returncode)
PYEOF
$PY -c "from vlib import crypto_ref; print(crypto_ref.self_test())"
