#![no_main]
// C16: if a typed decoder accepts the input leaving r octets, decoding the element alone
// (input without those r octets) must give the same value and leave nothing.
use gufo_snmp::verif;
use libfuzzer_sys::fuzz_target;

const NAMES: [&str; 18] = [
    "bool", "int", "null", "octetstring", "oid", "objectdescriptor", "real", "ipaddress", "counter32",
    "gauge32", "timeticks", "uinteger32", "counter64", "opaque", "relativeoid", "sequence", "option", "value",
];

fuzz_target!(|d: &[u8]| {
    if d.is_empty() {
        return;
    }
    let name = NAMES[(d[0] as usize) % NAMES.len()];
    let body = &d[1..];
    if let Ok((rest, v)) = verif::typed_from_ber(name, body) {
        assert!(rest <= body.len());
        let alone = &body[..body.len() - rest];
        match verif::typed_from_ber(name, alone) {
            Ok((r2, v2)) => {
                assert_eq!(r2, 0, "{} alone leaves octets", name);
                assert_eq!(v, v2, "{} value depends on what follows the element", name);
            }
            // outside the property's quantifier (x must decode alone): not judged
            Err(_) => {}
        }
    }
});
