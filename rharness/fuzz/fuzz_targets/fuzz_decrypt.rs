#![no_main]
// C01/C11: the privacy decrypt path is total. Byte 0: cipher and mode, byte 1: salt length;
// the rest is either raw ciphertext or a plaintext that is encrypted with third-party crates first.
use cipher::{AsyncStreamCipher, BlockEncryptMut, KeyIvInit, block_padding::NoPadding};
use gufo_snmp::snmp::msg::v3::UsmParameters;
use gufo_snmp::verif::{PrivKey, SnmpPriv};
use libfuzzer_sys::fuzz_target;

fuzz_target!(|d: &[u8]| {
    if d.len() < 2 {
        return;
    }
    let alg = 1 + (d[0] & 1);
    let deep = d[0] & 2 != 0;
    let key: Vec<u8> = (1u8..=16).collect();
    let mut k = PrivKey::new(alg).unwrap();
    k.as_localized(&key).unwrap();
    let body = &d[2..];
    let salt_full = [9u8, 8, 7, 6, 5, 4, 3, 2, 1, 0, 1, 2, 3, 4, 5, 6, 7, 8, 9, 0];
    let sl = if deep { 8 } else { (d[1] % 20) as usize };
    let salt = &salt_full[..sl];
    let ct: Vec<u8> = if deep {
        let mut buf = body.to_vec();
        if alg == 1 {
            while buf.len() % 8 != 0 {
                buf.push(0);
            }
            if buf.len() > 4072 {
                return;
            }
            let mut iv = [0u8; 8];
            for i in 0..8 {
                iv[i] = key[8 + i] ^ salt[i];
            }
            let n = buf.len();
            let e = cbc::Encryptor::<des::Des>::new_from_slices(&key[..8], &iv).unwrap();
            e.encrypt_padded_mut::<NoPadding>(&mut buf, n).unwrap();
        } else {
            let mut iv = [0u8; 16];
            iv[..4].copy_from_slice(&7u32.to_be_bytes());
            iv[4..8].copy_from_slice(&9u32.to_be_bytes());
            iv[8..].copy_from_slice(salt);
            let e = cfb_mode::Encryptor::<aes::Aes128>::new_from_slices(&key, &iv).unwrap();
            e.encrypt(&mut buf);
        }
        buf
    } else {
        body.to_vec()
    };
    let usm = UsmParameters {
        engine_id: &[],
        engine_boots: 7,
        engine_time: 9,
        user_name: &[],
        auth_params: &[],
        privacy_params: salt,
    };
    let _ = k.decrypt(&ct, &usm);
});
