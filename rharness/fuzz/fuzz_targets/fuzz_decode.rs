#![no_main]
// C01: every &[u8] handed to the message / value / PDU decoders returns; a panic aborts the fuzzer.
use gufo_snmp::snmp::msg::v3::{MsgData, SnmpV3Message};
use gufo_snmp::snmp::msg::{SnmpPdu, SnmpV1Message, SnmpV2cMessage};
use gufo_snmp::snmp::value::SnmpValue;
use gufo_snmp::verif;
use libfuzzer_sys::fuzz_target;

fn consume(p: SnmpPdu) {
    match p {
        SnmpPdu::GetResponse(r) => {
            let _ = verif::response_parts(r);
        }
        SnmpPdu::GetBulkRequest(b) => {
            let _ = verif::getbulk_parts(&b);
        }
        _ => {}
    }
}

fuzz_target!(|d: &[u8]| {
    if let Ok(m) = SnmpV1Message::try_from(d) {
        consume(m.pdu);
    }
    if let Ok(m) = SnmpV2cMessage::try_from(d) {
        consume(m.pdu);
    }
    if let Ok(m) = SnmpV3Message::try_from(d) {
        if let MsgData::Plaintext(s) = m.data {
            consume(s.pdu);
        }
    }
    if let Ok((_, v)) = SnmpValue::from_ber(d) {
        let _ = verif::project(v);
    }
    if let Ok(p) = SnmpPdu::try_from(d) {
        consume(p);
    }
});
