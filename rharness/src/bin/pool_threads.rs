// C03/C17 (Rig R): the global buffer pool under contention.
// N threads acquire handles, check the buffer they got is empty (reset), fill
// it with a thread-specific pattern, read it back, and drop it.  Run under
// Miri (data races, aliasing, uninitialised reads) and ASan.
// Usage: pool_threads <seed> <threads> <iterations-per-thread>
#[path = "../common.rs"]
mod common;
use common::*;
use gufo_snmp::buf::get_buffer_pool;
use std::sync::atomic::{AtomicU64, Ordering};
use std::sync::Arc;
use std::thread;

fn main() {
    let a: Vec<String> = std::env::args().collect();
    let seed: u64 = a[1].parse().unwrap();
    let nthreads: usize = a[2].parse().unwrap();
    let iters: u64 = a[3].parse().unwrap();
    let ops = Arc::new(AtomicU64::new(0));
    let bad = Arc::new(AtomicU64::new(0));
    let mut hs = Vec::new();
    for t in 0..nthreads {
        let ops = ops.clone();
        let bad = bad.clone();
        hs.push(thread::spawn(move || {
            let mut rng = Rng::new(seed * 131 + t as u64);
            for _ in 0..iters {
                // hold 1..3 handles at once so the pool grows and shrinks
                let k = 1 + rng.below(3) as usize;
                let mut handles = Vec::new();
                for _ in 0..k {
                    handles.push(get_buffer_pool().acquire());
                }
                for (j, h) in handles.iter_mut().enumerate() {
                    let buf = h.as_mut();
                    if !buf.is_empty() || buf.len() != 0 {
                        bad.fetch_add(1, Ordering::Relaxed);
                    }
                    let n = rng.below(300) as usize + 1;
                    let pat = (t * 16 + j) as u8;
                    let chunk = vec![pat; n];
                    buf.push(&chunk).unwrap();
                    buf.push_tag_len(4, n).unwrap();
                    let d = buf.data();
                    let hdr = if n < 128 { 2 } else if n < 256 { 3 } else { 4 };
                    if d.len() != n + hdr || d[hdr..].iter().any(|&x| x != pat) {
                        bad.fetch_add(1, Ordering::Relaxed);
                    }
                    ops.fetch_add(1, Ordering::Relaxed);
                }
                if rng.below(4) == 0 {
                    thread::yield_now();
                }
                drop(handles);
            }
        }));
    }
    for h in hs {
        h.join().unwrap();
    }
    println!(
        "{{\"ops\":{},\"bad\":{}}}",
        ops.load(Ordering::Relaxed),
        bad.load(Ordering::Relaxed)
    );
}
