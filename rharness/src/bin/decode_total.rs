// C01 (Rig R): totality of the receive-path decoders.
// Systematic structure-aware mutation of a seed corpus + exhaustive short
// strings + seeded random strings, each fed to every decoder entry point under
// catch_unwind. Any panic is a violation witness (location + input).
// Usage: decode_total <corpus-file> <seed> <shard> <nshards> <random-cases> <mode> [div]
//   mode: full | lite (lite = fewer mutation classes, for ASan / Miri); optional 7th arg: sample 1/div of the stream
#[path = "../common.rs"]
mod common;
use common::*;
use gufo_snmp::snmp::msg::v3::{MsgData, SnmpV3Message, UsmParameters};
use gufo_snmp::snmp::msg::{SnmpPdu, SnmpV1Message, SnmpV2cMessage};
use gufo_snmp::snmp::value::SnmpValue;
use gufo_snmp::verif::{self, PrivKey, SnmpPriv};
use std::collections::BTreeMap;

use cipher::{AsyncStreamCipher, BlockEncryptMut, KeyIvInit, block_padding::NoPadding};

const ALPHA: [u8; 24] = [
    0x00, 0x01, 0x02, 0x03, 0x04, 0x05, 0x06, 0x09, 0x0d, 0x1f, 0x30, 0x3f, 0x40, 0x41, 0x46, 0x7f,
    0x80, 0x81, 0x82, 0x84, 0xa2, 0xa8, 0xbf, 0xff,
];
const TAGS: [u8; 36] = [
    0x01, 0x02, 0x03, 0x04, 0x05, 0x06, 0x07, 0x09, 0x0d, 0x10, 0x1f, 0x21, 0x24, 0x27, 0x30, 0x31,
    0x3f, 0x40, 0x41, 0x42, 0x43, 0x44, 0x45, 0x46, 0x47, 0x5f, 0x80, 0x81, 0x82, 0x9f, 0xa0, 0xa1,
    0xa2, 0xa5, 0xa8, 0xbf,
];

struct Stats {
    cases: u64,
    calls: u64,
    ok: BTreeMap<&'static str, u64>,
    err: BTreeMap<&'static str, u64>,
    panics: BTreeMap<String, (u64, String, &'static str, String)>, // location -> (count, shortest witness, decoder, message)
    deep: u64, // inputs that decoded successfully in at least one decoder
}

fn key16() -> Vec<u8> {
    (1u8..=16).collect()
}

fn des_encrypt(key: &[u8], salt: &[u8; 8], data: &[u8]) -> Vec<u8> {
    let mut iv = [0u8; 8];
    for i in 0..8 {
        iv[i] = key[8 + i] ^ salt[i];
    }
    let mut buf = data.to_vec();
    while buf.len() % 8 != 0 {
        buf.push(0);
    }
    let n = buf.len();
    let enc = cbc::Encryptor::<des::Des>::new_from_slices(&key[..8], &iv).unwrap();
    enc.encrypt_padded_mut::<NoPadding>(&mut buf, n).unwrap();
    buf
}

fn aes_encrypt(key: &[u8], boots: u32, time: u32, salt: &[u8; 8], data: &[u8]) -> Vec<u8> {
    let mut iv = [0u8; 16];
    iv[..4].copy_from_slice(&boots.to_be_bytes());
    iv[4..8].copy_from_slice(&time.to_be_bytes());
    iv[8..].copy_from_slice(salt);
    let mut buf = data.to_vec();
    let enc = cfb_mode::Encryptor::<aes::Aes128>::new_from_slices(&key[..16], &iv).unwrap();
    enc.encrypt(&mut buf);
    buf
}

struct Ctx {
    st: Stats,
    des: PrivKey,
    aes: PrivKey,
    do_priv: bool,
    n: u64,
    div: u64,
    phase: u64,
}

impl Ctx {
    fn note(&mut self, dec: &'static str, r: Result<bool, String>, input: &[u8]) -> bool {
        self.st.calls += 1;
        match r {
            Ok(true) => {
                *self.st.ok.entry(dec).or_insert(0) += 1;
                true
            }
            Ok(false) => {
                *self.st.err.entry(dec).or_insert(0) += 1;
                false
            }
            Err(full) => {
                // key on file:line:col only; keep one full message
                let loc = full.split(": ").next().unwrap_or("?").to_string();
                let e = self
                    .st
                    .panics
                    .entry(loc)
                    .or_insert((0, hex(input), dec, full.clone()));
                e.0 += 1;
                if hex(input).len() < e.1.len() {
                    e.1 = hex(input);
                    e.2 = dec;
                }
                false
            }
        }
    }

    fn feed(&mut self, d: &[u8]) {
        // deterministic 1/div sampling of the mutation stream (for slow monitors)
        self.n += 1;
        if self.div > 1 && (self.n + self.phase) % self.div != 0 {
            return;
        }
        self.st.cases += 1;
        let mut any = false;
        let r = guarded(|| SnmpV1Message::try_from(d).map(consume_c1).is_ok());
        any |= self.note("v1", r, d);
        let r = guarded(|| SnmpV2cMessage::try_from(d).map(consume_c2).is_ok());
        any |= self.note("v2c", r, d);
        let r = guarded(|| match SnmpV3Message::try_from(d) {
            Ok(m) => {
                consume_v3(m);
                true
            }
            Err(_) => false,
        });
        any |= self.note("v3", r, d);
        let r = guarded(|| match SnmpValue::from_ber(d) {
            Ok((_, v)) => {
                let _ = verif::project(v);
                true
            }
            Err(_) => false,
        });
        any |= self.note("value", r, d);
        let r = guarded(|| SnmpPdu::try_from(d).map(consume_pdu).is_ok());
        any |= self.note("pdu", r, d);
        if self.do_priv {
            // as ciphertext, with privacy parameters of every length 0..17
            let pl = (self.st.cases % 18) as usize;
            let pp: Vec<u8> = (0..pl as u8).collect();
            let usm = UsmParameters {
                engine_id: &[],
                engine_boots: 7,
                engine_time: 9,
                user_name: &[],
                auth_params: &[],
                privacy_params: &pp,
            };
            let des = &mut self.des;
            let r = guarded(|| des.decrypt(d, &usm).map(|s| consume_pdu(s.pdu)).is_ok());
            any |= self.note("des_raw", r, d);
            let aes = &mut self.aes;
            let r = guarded(|| aes.decrypt(d, &usm).map(|s| consume_pdu(s.pdu)).is_ok());
            any |= self.note("aes_raw", r, d);
            // as plaintext scoped PDU: encrypt with third-party crates, decrypt through the library
            let salt = [1u8, 2, 3, 4, 5, 6, 7, 8];
            let usm = UsmParameters {
                engine_id: &[],
                engine_boots: 7,
                engine_time: 9,
                user_name: &[],
                auth_params: &[],
                privacy_params: &salt,
            };
            if d.len() <= 4072 {
                let ct = des_encrypt(&key16(), &salt, d);
                let des = &mut self.des;
                let r = guarded(|| des.decrypt(&ct, &usm).map(|s| consume_pdu(s.pdu)).is_ok());
                any |= self.note("des_deep", r, d);
            }
            let ct = aes_encrypt(&key16(), 7, 9, &salt, d);
            let aes = &mut self.aes;
            let r = guarded(|| aes.decrypt(&ct, &usm).map(|s| consume_pdu(s.pdu)).is_ok());
            any |= self.note("aes_deep", r, d);
        }
        if any {
            self.st.deep += 1;
        }
    }
}

fn consume_pdu(p: SnmpPdu) {
    match p {
        SnmpPdu::GetResponse(r) => {
            let _ = verif::response_parts(r);
        }
        SnmpPdu::GetBulkRequest(b) => {
            let _ = verif::getbulk_parts(&b);
        }
        _ => {}
    }
}
fn consume_c1(m: SnmpV1Message) {
    consume_pdu(m.pdu)
}
fn consume_c2(m: SnmpV2cMessage) {
    consume_pdu(m.pdu)
}
fn consume_v3(m: SnmpV3Message) {
    if let MsgData::Plaintext(s) = m.data {
        consume_pdu(s.pdu)
    }
}

// lenient TLV walk: positions (start, header_len, content_len, constructed) of every
// element reachable by descending into constructed elements and OCTET STRINGs that parse
fn walk(d: &[u8], base: usize, out: &mut Vec<(usize, usize, usize)>, depth: usize) {
    let mut off = 0;
    while off + 2 <= d.len() && depth < 12 {
        let tag = d[off];
        let l0 = d[off + 1];
        let (len, h) = if l0 < 0x80 {
            (l0 as usize, 2)
        } else {
            let n = (l0 & 0x7f) as usize;
            if n == 0 || n > 4 || off + 2 + n > d.len() {
                return;
            }
            let mut v = 0usize;
            for k in 0..n {
                v = v << 8 | d[off + 2 + k] as usize;
            }
            (v, 2 + n)
        };
        if off + h + len > d.len() {
            return;
        }
        out.push((base + off, h, len));
        if tag & 0x20 != 0 || tag == 0x04 {
            walk(&d[off + h..off + h + len], base + off + h, out, depth + 1);
        }
        off += h + len;
    }
}

fn mutate_all(c: &mut Ctx, m: &[u8], lite: bool) {
    c.feed(m);
    // truncation at every offset
    for n in 0..m.len() {
        c.feed(&m[..n]);
    }
    let mut w = m.to_vec();
    // every octet replaced
    for i in 0..m.len() {
        let orig = m[i];
        if lite {
            for v in [0u8, 0x80, 0xff, orig.wrapping_add(1), orig.wrapping_sub(1)] {
                w[i] = v;
                c.feed(&w);
            }
        } else {
            for v in ALPHA {
                w[i] = v;
                c.feed(&w);
            }
            w[i] = orig.wrapping_add(1);
            c.feed(&w);
            w[i] = orig.wrapping_sub(1);
            c.feed(&w);
            w[i] = orig ^ 0x80;
            c.feed(&w);
            w[i] = orig ^ 0x20;
            c.feed(&w);
        }
        w[i] = orig;
    }
    // octet deletion / insertion
    for i in 0..m.len() {
        let mut x = m.to_vec();
        x.remove(i);
        c.feed(&x);
        if !lite {
            for v in [0u8, 0x80, 0xff, 0x30] {
                let mut y = m.to_vec();
                y.insert(i, v);
                c.feed(&y);
            }
        }
    }
    // TLV-aware
    let mut els = Vec::new();
    walk(m, 0, &mut els, 0);
    for &(s, h, l) in els.iter() {
        // tag rewrite
        for t in TAGS {
            if lite && t % 3 != 0 {
                continue;
            }
            w[s] = t;
            c.feed(&w);
        }
        w[s] = m[s];
        // length re-encodings (content kept): long forms, huge, zero
        let forms: Vec<Vec<u8>> = vec![
            vec![0x81, l as u8],
            vec![0x82, (l >> 8) as u8, l as u8],
            vec![0x83, 0, (l >> 8) as u8, l as u8],
            vec![0x84, 0, 0, (l >> 8) as u8, l as u8],
            vec![0x84, 0xff, 0xff, 0xff, 0xff],
            vec![0x88, 0xff, 0xff, 0xff, 0xff, 0xff, 0xff, 0xff, 0xff],
            vec![0x88, 0x80, 0, 0, 0, 0, 0, 0, 0],
            vec![0x80],
            vec![0x00],
            vec![0x7f],
            vec![0xff],
            vec![(l as u8).wrapping_add(1) & 0x7f],
            vec![(l as u8).wrapping_sub(1) & 0x7f],
            vec![0x81],
            vec![0x82, 0x01],
        ];
        for f in forms.iter() {
            let mut x = Vec::with_capacity(m.len() + 10);
            x.extend_from_slice(&m[..s + 1]);
            x.extend_from_slice(f);
            x.extend_from_slice(&m[s + h..]);
            c.feed(&x);
        }
        // element deletion, duplication, emptying
        let mut x = m[..s].to_vec();
        x.extend_from_slice(&m[s + h + l..]);
        c.feed(&x);
        let mut x = m[..s + h + l].to_vec();
        x.extend_from_slice(&m[s..]);
        c.feed(&x);
        let mut x = m[..s + h].to_vec();
        x.extend_from_slice(&m[s + h + l..]);
        c.feed(&x);
        // high tag number forms in place of the tag
        for hi in [vec![0x1fu8, 0x02], vec![0x3f, 0x81, 0x10], vec![0xbf, 0xff, 0xff, 0xff, 0x7f], vec![0x1f, 0x80]] {
            let mut x = m[..s].to_vec();
            x.extend_from_slice(&hi);
            x.extend_from_slice(&m[s + 1..]);
            c.feed(&x);
        }
    }
    // swap neighbouring elements
    for k in 0..els.len().saturating_sub(1) {
        let (s1, h1, l1) = els[k];
        let (s2, h2, l2) = els[k + 1];
        if s1 + h1 + l1 == s2 {
            let mut x = m[..s1].to_vec();
            x.extend_from_slice(&m[s2..s2 + h2 + l2]);
            x.extend_from_slice(&m[s1..s2]);
            x.extend_from_slice(&m[s2 + h2 + l2..]);
            c.feed(&x);
        }
    }
}

fn main() {
    let a: Vec<String> = std::env::args().collect();
    let corpus = std::fs::read_to_string(&a[1]).expect("corpus");
    let seed: u64 = a[2].parse().unwrap();
    let shard: usize = a[3].parse().unwrap();
    let nshards: usize = a[4].parse().unwrap();
    let nrandom: u64 = a[5].parse().unwrap();
    let lite = a[6] == "lite" || a[6] == "pick";
    let pick = a[6] == "pick";
    let mut des = PrivKey::new(1).unwrap();
    des.as_localized(&key16()).unwrap();
    let mut aes = PrivKey::new(2).unwrap();
    aes.as_localized(&key16()).unwrap();
    let mut c = Ctx {
        st: Stats {
            cases: 0,
            calls: 0,
            ok: BTreeMap::new(),
            err: BTreeMap::new(),
            panics: BTreeMap::new(),
            deep: 0,
        },
        des,
        aes,
        do_priv: true,
        n: 0,
        div: a.get(7).map(|x| x.parse().unwrap()).unwrap_or(1),
        phase: seed,
    };
    let msgs: Vec<Vec<u8>> = corpus
        .lines()
        .filter(|l| !l.is_empty() && !l.starts_with('#'))
        .map(|l| unhex(l.split_whitespace().last().unwrap()))
        .collect();
    if pick {
        // Miri-sized: nrandom random (message, mutation) pairs, no sweeps
        let mut rng = Rng::new(seed.wrapping_mul(7919).wrapping_add(shard as u64));
        for k in 0..nrandom {
            c.do_priv = k % 3 == 0;
            let m = &msgs[rng.below(msgs.len() as u64) as usize];
            let mut x = m.clone();
            match rng.below(8) {
                0 => x.truncate(rng.below(m.len() as u64 + 1) as usize),
                1 | 2 => {
                    let i = rng.below(m.len() as u64) as usize;
                    x[i] = ALPHA[rng.below(24) as usize];
                }
                3 => {
                    let i = rng.below(m.len() as u64) as usize;
                    x[i] = x[i].wrapping_add(1);
                }
                4 => {
                    let i = rng.below(m.len() as u64) as usize;
                    x.remove(i);
                }
                5 => {
                    let i = rng.below(m.len() as u64) as usize;
                    x.insert(i, ALPHA[rng.below(24) as usize]);
                }
                6 => {
                    x = (0..rng.below(12)).map(|_| ALPHA[rng.below(24) as usize]).collect();
                }
                _ => {}
            }
            c.feed(&x);
        }
    }
    // exhaustive short strings (shard 0 only): len 0..2 all, len 3 over ALPHA
    if shard == 0 && !pick {
        c.feed(&[]);
        for x in 0..=255u8 {
            c.feed(&[x]);
        }
        if !lite {
            for x in 0..=255u8 {
                for y in 0..=255u8 {
                    c.feed(&[x, y]);
                }
            }
        }
        for x in ALPHA {
            for y in ALPHA {
                if lite {
                    c.feed(&[x, y]);
                }
                for z in ALPHA {
                    c.feed(&[x, y, z]);
                    if !lite {
                        for q in [0x00u8, 0x01, 0x7f, 0x80, 0x81, 0xff] {
                            c.feed(&[x, y, z, q]);
                        }
                    }
                }
            }
        }
    }
    for (i, m) in msgs.iter().enumerate() {
        if i % nshards == shard && !pick {
            mutate_all(&mut c, m, lite);
        }
    }
    // seeded random strings, and random splices of corpus fragments
    let mut rng = Rng::new(seed.wrapping_mul(1000).wrapping_add(shard as u64));
    for k in 0..(if pick { 0 } else { nrandom }) {
        let len = match k % 4 {
            0 => rng.below(16),
            1 => rng.below(200),
            2 => rng.below(4081),
            _ => rng.below(64),
        } as usize;
        let mut v: Vec<u8> = Vec::with_capacity(len);
        if k % 2 == 0 || msgs.is_empty() {
            for _ in 0..len {
                v.push(if rng.below(3) == 0 { ALPHA[rng.below(24) as usize] } else { rng.byte() });
            }
        } else {
            // splice: prefix of one message + random bytes + suffix of another
            let m1 = &msgs[rng.below(msgs.len() as u64) as usize];
            let m2 = &msgs[rng.below(msgs.len() as u64) as usize];
            let p = rng.below(m1.len() as u64 + 1) as usize;
            let q = rng.below(m2.len() as u64 + 1) as usize;
            v.extend_from_slice(&m1[..p]);
            for _ in 0..rng.below(4) {
                v.push(ALPHA[rng.below(24) as usize]);
            }
            v.extend_from_slice(&m2[q..]);
        }
        c.feed(&v);
    }
    // summary
    let mut s = String::new();
    s.push_str(&format!(
        "{{\"cases\":{},\"calls\":{},\"deep\":{},\"ok\":{{",
        c.st.cases, c.st.calls, c.st.deep
    ));
    s.push_str(
        &c.st
            .ok
            .iter()
            .map(|(k, v)| format!("\"{}\":{}", k, v))
            .collect::<Vec<_>>()
            .join(","),
    );
    s.push_str("},\"err\":{");
    s.push_str(
        &c.st
            .err
            .iter()
            .map(|(k, v)| format!("\"{}\":{}", k, v))
            .collect::<Vec<_>>()
            .join(","),
    );
    s.push_str("},\"panics\":[");
    s.push_str(
        &c.st
            .panics
            .iter()
            .map(|(loc, (n, w, d, m))| {
                format!(
                    "{{\"loc\":{},\"count\":{},\"witness\":\"{}\",\"decoder\":\"{}\",\"msg\":{}}}",
                    jstr(loc),
                    n,
                    w,
                    d,
                    jstr(m)
                )
            })
            .collect::<Vec<_>>()
            .join(","),
    );
    s.push_str("]}");
    println!("{}", s);
}
