// C17 (Rig R): random operation sequences on one Buffer against a Vec-backed
// shadow model.  After every operation: len/free/is_empty/is_full and the
// visible bytes must equal the shadow; Err(OutOfBuffer) exactly when the shadow
// says it does not fit.  Run natively, under ASan and under Miri (which also
// flags any read of a never-written byte).
// Usage: buf_ops <seed> <sequences> <max-ops-per-sequence>
#[path = "../common.rs"]
mod common;
use common::*;
use gufo_snmp::buf::Buffer;
use std::mem::MaybeUninit;

const MAX: usize = 4080;

struct Shadow {
    v: Vec<u8>, // v[0] is the most recently pushed octet (front of the message)
    bookmark_abs: usize,
}

impl Shadow {
    fn pos(&self) -> usize {
        MAX - self.v.len()
    }
    fn push_front(&mut self, chunk: &[u8]) {
        let mut n = chunk.to_vec();
        n.extend_from_slice(&self.v);
        self.v = n;
    }
}

fn tag_len_bytes(tag: u8, v: usize) -> Vec<u8> {
    let mut o = vec![tag];
    o.extend(der_len(v));
    o
}

fn main() {
    let a: Vec<String> = std::env::args().collect();
    let seed: u64 = a[1].parse().unwrap();
    let nseq: u64 = a[2].parse().unwrap();
    let maxops: u64 = a[3].parse().unwrap();
    let mut rng = Rng::new(seed);
    let mut ops = 0u64;
    let mut oob = 0u64;
    let mut kinds = [0u64; 10];
    let mut bad: Vec<String> = Vec::new();
    for s in 0..nseq {
        let mut b = Buffer::default();
        let mut sh = Shadow {
            v: Vec::new(),
            bookmark_abs: 0,
        };
        let mut trace: Vec<String> = Vec::new();
        let n = 1 + rng.below(maxops);
        for _ in 0..n {
            ops += 1;
            let k = rng.below(10) as usize;
            kinds[k] += 1;
            let r = guarded(|| -> Result<(), String> {
                match k {
                    0 | 1 => {
                        // push chunk
                        let ln = match rng.below(6) {
                            0 => 0,
                            1 => rng.below(4),
                            2 => rng.below(300),
                            3 => rng.below(1500),
                            4 => sh.pos() as u64 + rng.below(3) - 1.min(sh.pos() as u64), // around the free space
                            _ => rng.below(5000),
                        } as usize;
                        let chunk: Vec<u8> = (0..ln).map(|_| rng.byte()).collect();
                        trace.push(format!("push({})", ln));
                        let r = b.push(&chunk);
                        if ln <= sh.pos() {
                            if r.is_err() {
                                return Err("push refused although it fits".into());
                            }
                            sh.push_front(&chunk);
                        } else {
                            oob += 1;
                            if r.is_ok() {
                                return Err("push accepted although it does not fit".into());
                            }
                        }
                    }
                    2 => {
                        let x = rng.byte();
                        trace.push("push_u8".into());
                        let r = b.push_u8(x);
                        if sh.pos() >= 1 {
                            if r.is_err() {
                                return Err("push_u8 refused although it fits".into());
                            }
                            sh.push_front(&[x]);
                        } else {
                            oob += 1;
                            if r.is_ok() {
                                return Err("push_u8 accepted on a full buffer".into());
                            }
                        }
                    }
                    3 => {
                        let tag = rng.byte();
                        let v = match rng.below(5) {
                            0 => rng.below(128),
                            1 => 126 + rng.below(4),
                            2 => 254 + rng.below(4),
                            3 => rng.below(4081),
                            _ => rng.below(65536),
                        } as usize;
                        trace.push(format!("push_tag_len({},{})", tag, v));
                        let hdr = tag_len_bytes(tag, v);
                        let r = b.push_tag_len(tag, v);
                        if hdr.len() <= sh.pos() {
                            if r.is_err() {
                                return Err("push_tag_len refused although it fits".into());
                            }
                            sh.push_front(&hdr);
                        } else {
                            oob += 1;
                            if r.is_ok() {
                                return Err("push_tag_len accepted although it does not fit".into());
                            }
                        }
                    }
                    4 => {
                        let tag = rng.byte();
                        let ln = match rng.below(4) {
                            0 => rng.below(3),
                            1 => 125 + rng.below(6),
                            2 => 253 + rng.below(6),
                            _ => rng.below(2000),
                        } as usize;
                        let data: Vec<u8> = (0..ln).map(|_| rng.byte()).collect();
                        trace.push(format!("push_tagged({},{})", tag, ln));
                        let hdr = tag_len_bytes(tag, ln);
                        let r = b.push_tagged(tag, &data);
                        if hdr.len() + ln <= sh.pos() {
                            if r.is_err() {
                                return Err("push_tagged refused although it fits".into());
                            }
                            sh.push_front(&data);
                            sh.push_front(&hdr);
                        } else {
                            oob += 1;
                            if r.is_ok() {
                                return Err("push_tagged accepted although it does not fit".into());
                            }
                            // a failed push_tagged may have pushed the data but not the header:
                            // bring the shadow in line with what is visible (documented: message is abandoned)
                            if ln <= sh.pos() {
                                sh.push_front(&data);
                            }
                        }
                    }
                    5 => {
                        // decrypt-style: reset, skip(n), fill through data_mut
                        let ln = match rng.below(4) {
                            0 => rng.below(64),
                            1 => rng.below(4081),
                            2 => 4070 + rng.below(30),
                            _ => rng.below(9000),
                        } as usize;
                        trace.push(format!("reset+skip({})+fill", ln));
                        b.reset();
                        sh.v.clear();
                        b.skip(ln);
                        let eff = ln.min(MAX);
                        let m = b.data_mut();
                        if m.len() != eff {
                            return Err(format!("after skip({}) data_mut() has {} octets", ln, m.len()));
                        }
                        let fill: Vec<u8> = (0..eff).map(|_| rng.byte()).collect();
                        m.copy_from_slice(&fill);
                        sh.v = fill;
                    }
                    6 => {
                        trace.push("reset".into());
                        b.reset();
                        sh.v.clear();
                    }
                    7 => {
                        let d = rng.below(20) as usize;
                        trace.push(format!("set_bookmark({})", d));
                        b.set_bookmark(d);
                        sh.bookmark_abs = sh.pos() + d;
                    }
                    8 => {
                        trace.push("get_bookmark".into());
                        let g = b.get_bookmark();
                        let w = sh.bookmark_abs.saturating_sub(sh.pos());
                        if g != w {
                            return Err(format!("get_bookmark {} expected {}", g, w));
                        }
                    }
                    _ => {
                        // receive-style: write n octets at the start of the storage, read them via as_slice
                        let ln = rng.below(4081) as usize;
                        trace.push(format!("recv({})", ln));
                        {
                            let raw: &mut [MaybeUninit<u8>] = b.as_mut();
                            if raw.len() != MAX {
                                return Err(format!("storage has {} octets", raw.len()));
                            }
                            for i in 0..ln {
                                raw[i].write((i * 7 + 3) as u8);
                            }
                        }
                        let sl = b.as_slice(ln);
                        for i in 0..ln {
                            if sl[i] != (i * 7 + 3) as u8 {
                                return Err("as_slice differs from what was received".into());
                            }
                        }
                        // the received octets overwrite the low part of the storage: visible data
                        // occupies the high part; bring the shadow in line where they overlap
                        let pos = sh.pos();
                        for i in pos..ln.max(pos) {
                            if i < ln {
                                sh.v[i - pos] = (i * 7 + 3) as u8;
                            }
                        }
                    }
                }
                // invariants after every operation
                if b.len() != sh.v.len() || b.free() != sh.pos() {
                    return Err(format!("len {} free {} shadow len {}", b.len(), b.free(), sh.v.len()));
                }
                if b.is_empty() != sh.v.is_empty() || b.is_full() != (sh.v.len() == MAX) {
                    return Err("is_empty/is_full disagree with shadow".into());
                }
                if b.data() != sh.v.as_slice() {
                    return Err("data() differs from shadow".into());
                }
                if b.data_mut().len() != sh.v.len() {
                    return Err("data_mut() length differs".into());
                }
                Ok(())
            });
            let msg = match r {
                Ok(Ok(())) => None,
                Ok(Err(m)) => Some(m),
                Err(p) => Some(format!("panic {}", p)),
            };
            if let Some(m) = msg {
                if bad.len() < 5 {
                    let t: Vec<String> = trace.iter().rev().take(12).rev().cloned().collect();
                    bad.push(format!("seq {}: {} after [{}]", s, m, t.join(", ")));
                }
                break;
            }
        }
    }
    let b: Vec<String> = bad.iter().map(|x| jstr(x)).collect();
    println!(
        "{{\"sequences\":{},\"ops\":{},\"out_of_buffer_cases\":{},\"op_kinds\":{:?},\"bad\":[{}]}}",
        nseq,
        ops,
        oob,
        kinds,
        b.join(",")
    );
}
