// C15 (Rig R): everything the library encodes it decodes back unchanged, and
// the encoding is the minimal definite-length form (judged by an independent
// encoder / strict TLV walker in common.rs).
// Usage: roundtrip <mode> <seed> <shard> <nshards> <n>
//   modes: ints-exh | ints-edge | ints-rand | oids | octets | msgs
#[path = "../common.rs"]
mod common;
use common::*;
use gufo_snmp::ber::{BerDecoder, BerEncoder, SnmpInt, SnmpNull, SnmpOctetString, SnmpOid};
use gufo_snmp::buf::Buffer;
use gufo_snmp::snmp::get::SnmpGet;
use gufo_snmp::snmp::msg::v3::{MsgData, ScopedPdu, SnmpV3Message, UsmParameters};
use gufo_snmp::snmp::msg::{SnmpPdu, SnmpV1Message, SnmpV2cMessage};
use gufo_snmp::verif::{self, PrivKey, SnmpPriv};

struct Out {
    cases: u64,
    classes: std::collections::BTreeSet<String>,
    bad: Vec<String>,
    nbad: u64,
    samples: Vec<String>,
}

impl Out {
    fn fail(&mut self, sig: &str, msg: String) {
        self.nbad += 1;
        if self.bad.len() < 12 {
            self.bad.push(format!("{}|{}", sig, msg));
        }
    }
}

fn check_int(o: &mut Out, b: &mut Buffer, v: i64) {
    o.cases += 1;
    b.reset();
    let si: SnmpInt = v.into();
    let r = guarded(|| si.push_ber(b));
    let want = der_tlv(2, &int_content(v));
    let cls = format!("int:{}{}", want.len() - 2, if v < 0 { "-" } else { "+" });
    match r {
        Err(p) => {
            o.fail(&format!("int-encode-panic:{}", cls), format!("SnmpInt({}).push_ber panicked: {}", v, p));
            return;
        }
        Ok(Err(e)) => {
            o.fail(&format!("int-encode-err:{}", cls), format!("SnmpInt({}).push_ber -> {:?}", v, e));
            return;
        }
        Ok(Ok(())) => {}
    }
    let got = b.data().to_vec();
    if o.samples.len() < 3 && o.cases % 200003 == 7 {
        o.samples.push(format!("INTEGER {} -> {}", v, hex(&got)));
    }
    if got != want {
        o.fail(&format!("int-encode:{}", cls), format!("SnmpInt({}) encoded as {} ; minimal form is {}", v, hex(&got), hex(&want)));
    }
    match guarded(|| SnmpInt::from_ber(&got).map(|(t, x)| (t.len(), i64::from(x)))) {
        Ok(Ok((0, x))) if x == v => {}
        Ok(Ok((t, x))) => o.fail(&format!("int-roundtrip:{}", cls), format!("{} -> {} -> {} (rest {})", v, hex(&got), x, t)),
        Ok(Err(e)) => o.fail(&format!("int-roundtrip:{}", cls), format!("{} -> {} -> {:?}", v, hex(&got), e)),
        Err(p) => o.fail(&format!("int-decode-panic:{}", cls), format!("{} -> {} -> panic {}", v, hex(&got), p)),
    }
    o.classes.insert(cls);
}

fn gen_arc(rng: &mut Rng) -> u32 {
    const EDGES: [u32; 14] = [0, 1, 127, 128, 129, 255, 256, 16383, 16384, 2097151, 2097152, 268435455, 268435456, 4294967295];
    match rng.below(4) {
        0 => rng.below(128) as u32,
        1 => EDGES[rng.below(14) as usize],
        2 => (rng.next() >> (32 + rng.below(32))) as u32,
        _ => rng.next() as u32,
    }
}

fn b128(a: u64, out: &mut Vec<u8>) {
    let mut tmp = vec![(a & 0x7f) as u8];
    let mut x = a >> 7;
    while x > 0 {
        tmp.push(0x80 | (x & 0x7f) as u8);
        x >>= 7;
    }
    tmp.reverse();
    out.extend(tmp);
}

// OIDs the library *may* refuse (text parser limited to second arc <= 39) but, if it encodes them, must encode per
// X.690 8.19.4 and decode back: first arc 2 with a second arc >= 40; plus real-world prefixes and their textual
// neighbours (1.3.6.1.2.1 -> 1.3.6.1.2.10 ...), which only differ from the usual random OIDs in their *text*.
fn gen_oid_wide(rng: &mut Rng) -> (String, Vec<u8>, bool) {
    const PREFIXES: [&[u32]; 8] = [&[1, 3, 6, 1, 2, 1], &[1, 3, 6, 1, 4, 1], &[1, 3, 6, 1, 6, 3], &[1, 0, 8802, 1, 1, 2],
        &[1, 2, 840, 10006, 300, 43], &[2, 16, 840, 1, 113883], &[0, 9, 2342, 19200300], &[1, 3, 111, 2, 802, 1]];
    const TAILS: [u32; 10] = [1, 10, 11, 12, 19, 100, 127, 128, 16383, 16384];
    let mut arcs: Vec<u32>;
    let mut must = true;
    if rng.below(2) == 0 {
        arcs = PREFIXES[rng.below(8) as usize].to_vec();
        if rng.below(2) == 0 {
            // textual neighbour of the prefix: its last arc gets more digits
            let l = arcs.len() - 1;
            arcs[l] = TAILS[rng.below(10) as usize];
        }
        for _ in 0..rng.below(5) {
            arcs.push(gen_arc(rng));
        }
    } else {
        let a1 = match rng.below(4) {
            0 => 40 + rng.below(8) as u32,
            1 => 48 + rng.below(128) as u32,
            2 => [175u32, 176, 999, 16303, 16304, 2097071, 2097072, 4294967215][rng.below(8) as usize],
            _ => gen_arc(rng).min(4294967215),
        };
        must = a1 < 40;
        arcs = vec![2, a1];
        for _ in 0..rng.below(6) {
            arcs.push(gen_arc(rng));
        }
    }
    let text = arcs.iter().map(|a| a.to_string()).collect::<Vec<_>>().join(".");
    let mut content = Vec::new();
    b128(arcs[0] as u64 * 40 + arcs[1] as u64, &mut content);
    for a in &arcs[2..] {
        b128(*a as u64, &mut content);
    }
    (text, content, must)
}

fn gen_oid(rng: &mut Rng, max_arcs: u64) -> (String, Vec<u8>) {
    let n = 2 + rng.below(max_arcs - 1);
    let a0 = rng.below(3);
    let a1 = match rng.below(3) {
        0 => 0,
        1 => 39,
        _ => rng.below(40),
    };
    let mut text = format!("{}.{}", a0, a1);
    let mut content = vec![(a0 * 40 + a1) as u8];
    for _ in 2..n {
        let a = gen_arc(rng);
        text.push_str(&format!(".{}", a));
        b128(a as u64, &mut content);
    }
    (text, content)
}

// strict recursive validation of a whole message: every TLV definite & minimal, INTEGERs minimal,
// constructed elements (and the USM OCTET STRING) exactly filled by their children
fn strict_tree(d: &[u8], s: usize, e: usize, depth: usize) -> Result<(), String> {
    let mut off = s;
    while off < e {
        let (tag, cs, ce) = strict_tlv(&d[..e], off).ok_or(format!("bad TLV at {}", off))?;
        if tag == 0x02 {
            let c = &d[cs..ce];
            if c.is_empty() {
                return Err(format!("empty INTEGER at {}", off));
            }
            if c.len() > 1 && ((c[0] == 0 && c[1] & 0x80 == 0) || (c[0] == 0xff && c[1] & 0x80 != 0)) {
                return Err(format!("non-minimal INTEGER at {}", off));
            }
        }
        if tag & 0x20 != 0 && depth < 10 {
            strict_tree(d, cs, ce, depth + 1)?;
        }
        off = ce;
    }
    if off != e {
        return Err("children overrun parent".into());
    }
    Ok(())
}

fn main() {
    let a: Vec<String> = std::env::args().collect();
    let mode = a[1].as_str();
    let seed: u64 = a[2].parse().unwrap();
    let shard: u64 = a[3].parse().unwrap();
    let nsh: u64 = a[4].parse().unwrap();
    let n: u64 = a[5].parse().unwrap();
    let mut o = Out {
        cases: 0,
        classes: Default::default(),
        bad: vec![],
        nbad: 0,
        samples: vec![],
    };
    let mut b = Buffer::default();
    let mut rng = Rng::new(seed * 1000 + shard);
    match mode {
        "ints-exh" => {
            // every value of 1..3 content octets: -2^23 .. 2^23-1, sharded
            let lo: i64 = -(1 << 23);
            let hi: i64 = (1 << 23) - 1;
            let mut v = lo + shard as i64;
            while v <= hi {
                check_int(&mut o, &mut b, v);
                v += nsh as i64;
            }
        }
        "ints-edge" => {
            check_int(&mut o, &mut b, i64::MIN);
            check_int(&mut o, &mut b, i64::MAX);
            for k in 1..=8u32 {
                for base in [(1i128 << (8 * k - 1)), (1i128 << (8 * k))] {
                    for sign in [1i128, -1] {
                        let c = sign * base;
                        let mut d = -(n as i128) + shard as i128;
                        while d <= n as i128 {
                            let v = c + d;
                            if v >= i64::MIN as i128 && v <= i64::MAX as i128 {
                                check_int(&mut o, &mut b, v as i64);
                            }
                            d += nsh as i128;
                        }
                    }
                }
            }
        }
        "ints-rand" => {
            for _ in 0..n {
                let k = 1 + rng.below(8);
                let v = (rng.next() as i64) >> (64 - 8 * k);
                check_int(&mut o, &mut b, v);
            }
        }
        "oids" => {
            for _ in 0..n {
                o.cases += 1;
                let (text, content, must) = if rng.below(4) == 0 {
                    gen_oid_wide(&mut rng)
                } else {
                    let (t, c) = gen_oid(&mut rng, 40);
                    (t, c, true)
                };
                if !must && SnmpOid::try_from(text.as_str()).is_err() {
                    // outside what the library can encode: not judged
                    o.classes.insert("oid:refused-2.x>39".into());
                    continue;
                }
                let r = guarded(|| -> Result<(), String> {
                    let oid = SnmpOid::try_from(text.as_str()).map_err(|e| format!("parse {:?}", e))?;
                    let raw: Vec<u8> = (&oid).into();
                    if raw != content {
                        return Err(format!("content {} expected {}", hex(&raw), hex(&content)));
                    }
                    b.reset();
                    oid.push_ber(&mut b).map_err(|e| format!("push {:?}", e))?;
                    let enc = b.data().to_vec();
                    if enc != der_tlv(6, &content) {
                        return Err(format!("encoding {} not DER", hex(&enc)));
                    }
                    let (t, back) = SnmpOid::from_ber(&enc).map_err(|e| format!("decode {:?}", e))?;
                    if !t.is_empty() || back != oid {
                        return Err("decode(encode(x)) != x".into());
                    }
                    let s = String::try_from(&back).map_err(|e| format!("print {:?}", e))?;
                    if s != text {
                        return Err(format!("printed as {}", s));
                    }
                    Ok(())
                });
                match r {
                    Ok(Ok(())) => {
                        o.classes.insert(format!("oid:{}", content.len() / 8));
                    }
                    Ok(Err(m)) => o.fail("oid", format!("{}: {}", text, m)),
                    Err(p) => o.fail("oid-panic", format!("{}: {}", text, p)),
                }
            }
        }
        "octets" => {
            // NULL and OCTET STRING fields of every length 0..4076 (sharded)
            o.cases += 1;
            b.reset();
            SnmpNull {}.push_ber(&mut b).unwrap();
            if b.data() != [5u8, 0] || SnmpNull::from_ber(b.data()).map(|(t, _)| t.len()).unwrap_or(9) != 0 {
                o.fail("null", "NULL does not round-trip".into());
            }
            let mut ln = shard as usize;
            while ln <= 4076 {
                o.cases += 1;
                let data: Vec<u8> = (0..ln).map(|_| rng.byte()).collect();
                b.reset();
                let r = b.push_tagged(4, &data);
                let want = der_tlv(4, &data);
                if want.len() <= 4080 {
                    if r.is_err() || b.data() != want.as_slice() {
                        o.fail("octets-encode", format!("OCTET STRING of {} octets: {:?} header {}", ln, r.is_ok(), hex(&b.data()[..4.min(b.len())])));
                    } else {
                        let enc = b.data().to_vec();
                        match SnmpOctetString::from_ber(&enc) {
                            Ok((t, _)) if t.is_empty() => {}
                            _ => o.fail("octets-decode", format!("OCTET STRING of {} octets does not decode back", ln)),
                        }
                    }
                } else if r.is_ok() {
                    o.fail("octets-oversize", format!("OCTET STRING of {} octets accepted", ln));
                }
                o.classes.insert(format!("octets:{}", if ln < 128 { 0 } else if ln < 256 { 1 } else { 2 }));
                ln += nsh as usize;
            }
        }
        "msgs" => {
            for _ in 0..n {
                o.cases += 1;
                let ver = rng.below(3);
                let kind = rng.below(3);
                let noids = match rng.below(5) {
                    0 => 0,
                    1 => 1,
                    2 => rng.below(6),
                    3 => rng.below(40),
                    _ => rng.below(150),
                } as usize;
                // mostly short OIDs, sometimes long ones (>= 128 content octets: long-form OID length inside the varbind)
                let maxa = if rng.below(6) == 0 { 128 } else { 14 };
                let oids: Vec<(String, Vec<u8>)> = (0..noids).map(|_| gen_oid(&mut rng, maxa)).collect();
                let rid = (rng.next() & 0x7fffffff) as i64 >> rng.below(31);
                let mr = (rng.next() & 0x7fffffff) as i64 >> rng.below(31);
                let vars: Vec<SnmpOid> = oids.iter().map(|(_, c)| SnmpOid::from(c.clone())).collect();
                let pdu = match kind {
                    0 => SnmpPdu::GetRequest(SnmpGet { request_id: rid, vars }),
                    1 => SnmpPdu::GetNextRequest(SnmpGet { request_id: rid, vars }),
                    _ => SnmpPdu::GetBulkRequest(verif::getbulk(rid, 0, mr, vars)),
                };
                let comm: Vec<u8> = (0..rng.below(40)).map(|_| rng.byte()).collect();
                let eng: Vec<u8> = (0..rng.below(33)).map(|_| rng.byte()).collect();
                let user: Vec<u8> = (0..rng.below(40)).map(|_| rng.byte()).collect();
                let boots = (rng.next() & 0x7fffffff) as i64 >> rng.below(31);
                let time = (rng.next() & 0x7fffffff) as i64 >> rng.below(31);
                let msg_id = (rng.next() & 0x7fffffff) as i64 >> rng.below(31);
                let auth = rng.below(2) == 0;
                let zeros = [0u8; 12];
                b.reset();
                let r = guarded(|| -> Result<(), String> {
                    let enc_r = match ver {
                        0 => SnmpV1Message { community: &comm, pdu }.push_ber(&mut b),
                        1 => SnmpV2cMessage { community: &comm, pdu }.push_ber(&mut b),
                        _ => SnmpV3Message {
                            msg_id,
                            flag_auth: auth,
                            flag_priv: false,
                            flag_report: rng.below(2) == 0,
                            usm: UsmParameters {
                                engine_id: &eng,
                                engine_boots: boots,
                                engine_time: time,
                                user_name: &user,
                                auth_params: if auth { &zeros } else { &[] },
                                privacy_params: &[],
                            },
                            data: MsgData::Plaintext(ScopedPdu { engine_id: &eng, pdu }),
                        }
                        .push_ber(&mut b),
                    };
                    if let Err(e) = enc_r {
                        return if format!("{:?}", e) == "OutOfBuffer" { Err("OOB".into()) } else { Err(format!("encode {:?}", e)) };
                    }
                    let enc = b.data().to_vec();
                    if o.samples.len() < 2 && o.cases % 997 == 3 {
                        o.samples.push(format!("message v{} kind {} {} oids -> {} octets {}..", if ver == 2 { 3 } else { ver + 1 }, kind, noids, enc.len(), hex(&enc[..enc.len().min(40)])));
                    }
                    strict_tree(&enc, 0, enc.len(), 0).map_err(|m| format!("not strict DER: {} in {}", m, hex(&enc[..enc.len().min(80)])))?;
                    let (pdu_back, ok_env) = match ver {
                        0 => {
                            let m = SnmpV1Message::try_from(enc.as_slice()).map_err(|e| format!("decode {:?}", e))?;
                            let ok = m.community == comm.as_slice();
                            (m.pdu, ok)
                        }
                        1 => {
                            let m = SnmpV2cMessage::try_from(enc.as_slice()).map_err(|e| format!("decode {:?}", e))?;
                            let ok = m.community == comm.as_slice();
                            (m.pdu, ok)
                        }
                        _ => {
                            let m = SnmpV3Message::try_from(enc.as_slice()).map_err(|e| format!("decode {:?}", e))?;
                            let ok = m.msg_id == msg_id
                                && m.flag_auth == auth
                                && !m.flag_priv
                                && m.usm.engine_id == eng.as_slice()
                                && m.usm.engine_boots == boots
                                && m.usm.engine_time == time
                                && m.usm.user_name == user.as_slice()
                                && m.usm.auth_params.len() == if auth { 12 } else { 0 }
                                && m.usm.privacy_params.is_empty();
                            match m.data {
                                MsgData::Plaintext(s) => {
                                    let ok2 = ok && s.engine_id == eng.as_slice();
                                    (s.pdu, ok2)
                                }
                                _ => return Err("decoded as encrypted".into()),
                            }
                        }
                    };
                    if !ok_env {
                        return Err("envelope fields differ after round trip".into());
                    }
                    let want: Vec<Vec<u8>> = oids.iter().map(|(_, c)| c.clone()).collect();
                    let okp = match (kind, pdu_back) {
                        (0, SnmpPdu::GetRequest(g)) | (1, SnmpPdu::GetNextRequest(g)) => {
                            g.request_id == rid && g.vars.iter().map(|x| Vec::<u8>::from(x)).collect::<Vec<_>>() == want
                        }
                        (2, SnmpPdu::GetBulkRequest(g)) => {
                            let (r2, nr2, mr2, o2) = verif::getbulk_parts(&g);
                            r2 == rid && nr2 == 0 && mr2 == mr && o2 == want
                        }
                        _ => false,
                    };
                    if !okp {
                        return Err("PDU differs after round trip".into());
                    }
                    Ok(())
                });
                match r {
                    Ok(Ok(())) => {
                        o.classes.insert(format!("msg:v{}:k{}:{}", ver, kind, if noids == 0 { 0 } else if noids < 6 { 1 } else { 2 }));
                    }
                    Ok(Err(m)) if m == "OOB" => {
                        o.classes.insert("msg:oob".into());
                    }
                    Ok(Err(m)) => o.fail(&format!("msg:v{}", if ver == 2 { 3 } else { ver + 1 }), m),
                    Err(p) => o.fail("msg-panic", p),
                }
            }
        }
        "priv" => {
            // a request's scoped PDU encrypted by the library decrypts, by the library, to the same PDU (DES and AES)
            for _ in 0..n {
                o.cases += 1;
                let alg = 1 + rng.below(2) as u8;
                let key: Vec<u8> = (0..20).map(|_| rng.byte()).collect();
                let noids = rng.below(8) as usize;
                let oids: Vec<(String, Vec<u8>)> = (0..noids)
                    .map(|_| {
                        let m = 2 + rng.below(30);
                        gen_oid(&mut rng, m)
                    })
                    .collect();
                let rid = (rng.next() & 0x7fffffff) as i64;
                let eng: Vec<u8> = (0..rng.below(33)).map(|_| rng.byte()).collect();
                let boots = (rng.next() & 0x7fffffff) as u32;
                let time = (rng.next() & 0x7fffffff) as u32;
                let r = guarded(|| -> Result<usize, String> {
                    let mut k1 = PrivKey::new(alg).map_err(|e| format!("{:?}", e))?;
                    k1.as_localized(&key).map_err(|e| format!("{:?}", e))?;
                    let mut k2 = PrivKey::new(alg).map_err(|e| format!("{:?}", e))?;
                    k2.as_localized(&key).map_err(|e| format!("{:?}", e))?;
                    // some history on both keys first
                    for _ in 0..rng.below(3) {
                        let sp = ScopedPdu { engine_id: &eng, pdu: SnmpPdu::GetRequest(SnmpGet { request_id: 1, vars: vec![] }) };
                        let _ = k1.encrypt(&sp, 1, 1);
                    }
                    let vars: Vec<SnmpOid> = oids.iter().map(|(_, c)| SnmpOid::from(c.clone())).collect();
                    let sp = ScopedPdu { engine_id: &eng, pdu: SnmpPdu::GetNextRequest(SnmpGet { request_id: rid, vars }) };
                    let (data, salt) = k1.encrypt(&sp, boots, time).map_err(|e| format!("encrypt {:?}", e))?;
                    let (data, salt) = (data.to_vec(), salt.to_vec());
                    let usm = UsmParameters { engine_id: &eng, engine_boots: boots as i64, engine_time: time as i64, user_name: &[], auth_params: &[], privacy_params: &salt };
                    let back = k2.decrypt(&data, &usm).map_err(|e| format!("decrypt of the library's own ciphertext ({} octets): {:?}", data.len(), e))?;
                    if back.engine_id != eng.as_slice() {
                        return Err("context engine id differs".into());
                    }
                    match back.pdu {
                        SnmpPdu::GetNextRequest(g) => {
                            let want: Vec<Vec<u8>> = oids.iter().map(|(_, c)| c.clone()).collect();
                            if g.request_id != rid || g.vars.iter().map(|x| Vec::<u8>::from(x)).collect::<Vec<_>>() != want {
                                return Err("PDU differs after encrypt/decrypt".into());
                            }
                        }
                        _ => return Err("PDU kind differs".into()),
                    }
                    Ok(data.len())
                });
                match r {
                    Ok(Ok(l)) => {
                        o.classes.insert(format!("priv:{}:{}", alg, l % 16));
                    }
                    Ok(Err(m)) => o.fail(&format!("priv:{}", if alg == 1 { "des" } else { "aes" }), m),
                    Err(p) => o.fail("priv-panic", p),
                }
            }
        }
        _ => panic!("mode"),
    }
    let bad: Vec<String> = o.bad.iter().map(|x| jstr(x)).collect();
    let cls: Vec<String> = o.classes.iter().map(|x| jstr(x)).collect();
    let smp: Vec<String> = o.samples.iter().map(|x| jstr(x)).collect();
    println!(
        "{{\"cases\":{},\"nbad\":{},\"classes\":[{}],\"bad\":[{}],\"samples\":[{}]}}",
        o.cases,
        o.nbad,
        cls.join(","),
        bad.join(","),
        smp.join(",")
    );
}
