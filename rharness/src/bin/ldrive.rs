// Line driver: executes one library call per input line (tab separated),
// under catch_unwind, and prints one result line: "ok\t...", "err\t<SnmpError>",
// or "panic\t<location: message>". The oracles live in the Python checkers
// (and in the sanitizer / Miri this binary runs under).
#[path = "../common.rs"]
mod common;
use common::*;
use gufo_snmp::auth::{AuthKey, SnmpAuth};
use gufo_snmp::ber::{BerEncoder, SnmpInt, SnmpOid};
use gufo_snmp::buf::Buffer;
use gufo_snmp::error::SnmpError;
use gufo_snmp::snmp::get::SnmpGet;
use gufo_snmp::snmp::msg::v3::{MsgData, ScopedPdu, SnmpV3Message, UsmParameters};
use gufo_snmp::snmp::msg::{SnmpPdu, SnmpV1Message, SnmpV2cMessage};
use gufo_snmp::verif::{self, PrivKey, SnmpPriv, VerifValue};
use std::collections::HashMap;
use std::io::{self, BufRead, Write};

fn value_json(v: &VerifValue) -> String {
    match v {
        VerifValue::Bool(x) => format!("{{\"t\":\"Bool\",\"v\":{}}}", x),
        VerifValue::Int(x) => format!("{{\"t\":\"Int\",\"v\":{}}}", x),
        VerifValue::Null => "{\"t\":\"Null\"}".into(),
        VerifValue::OctetString(x) => format!("{{\"t\":\"OctetString\",\"v\":\"{}\"}}", hex(x)),
        VerifValue::Oid(x) => format!("{{\"t\":\"Oid\",\"v\":\"{}\"}}", hex(x)),
        VerifValue::ObjectDescriptor(x) => {
            format!("{{\"t\":\"ObjectDescriptor\",\"v\":\"{}\"}}", hex(x))
        }
        VerifValue::Real(x) => format!("{{\"t\":\"Real\",\"v\":{}}}", x),
        VerifValue::IpAddress(x) => format!("{{\"t\":\"IpAddress\",\"v\":{}}}", jstr(x)),
        VerifValue::Counter32(x) => format!("{{\"t\":\"Counter32\",\"v\":{}}}", x),
        VerifValue::Gauge32(x) => format!("{{\"t\":\"Gauge32\",\"v\":{}}}", x),
        VerifValue::TimeTicks(x) => format!("{{\"t\":\"TimeTicks\",\"v\":{}}}", x),
        VerifValue::Opaque(x) => format!("{{\"t\":\"Opaque\",\"v\":\"{}\"}}", hex(x)),
        VerifValue::Counter64(x) => format!("{{\"t\":\"Counter64\",\"v\":{}}}", x),
        VerifValue::UInteger32(x) => format!("{{\"t\":\"UInteger32\",\"v\":{}}}", x),
        VerifValue::NoSuchObject => "{\"t\":\"NoSuchObject\"}".into(),
        VerifValue::NoSuchInstance => "{\"t\":\"NoSuchInstance\"}".into(),
        VerifValue::EndOfMibView => "{\"t\":\"EndOfMibView\"}".into(),
    }
}

fn oids_json(v: &[Vec<u8>]) -> String {
    let parts: Vec<String> = v.iter().map(|o| format!("\"{}\"", hex(o))).collect();
    format!("[{}]", parts.join(","))
}

fn get_json(kind: &str, g: &SnmpGet) -> String {
    let oids: Vec<Vec<u8>> = g.vars.iter().map(|o| Vec::<u8>::from(o)).collect();
    format!(
        "{{\"kind\":\"{}\",\"request_id\":{},\"oids\":{}}}",
        kind,
        g.request_id,
        oids_json(&oids)
    )
}

fn pdu_json(p: SnmpPdu) -> String {
    match p {
        SnmpPdu::GetRequest(g) => get_json("get", &g),
        SnmpPdu::GetNextRequest(g) => get_json("next", &g),
        SnmpPdu::GetBulkRequest(b) => {
            let (r, nr, mr, oids) = verif::getbulk_parts(&b);
            format!(
                "{{\"kind\":\"bulk\",\"request_id\":{},\"non_repeaters\":{},\"max_repetitions\":{},\"oids\":{}}}",
                r, nr, mr, oids_json(&oids)
            )
        }
        SnmpPdu::GetResponse(r) => {
            let (rid, es, ei, vars) = verif::response_parts(r);
            let vs: Vec<String> = vars
                .iter()
                .map(|(o, v)| format!("[\"{}\",{}]", hex(o), value_json(v)))
                .collect();
            format!(
                "{{\"kind\":\"response\",\"request_id\":{},\"error_status\":{},\"error_index\":{},\"vars\":[{}]}}",
                rid, es, ei, vs.join(",")
            )
        }
        SnmpPdu::Report(r) => format!("{{\"kind\":\"report\",\"raw\":\"{}\"}}", hex(r.0)),
    }
}

fn scoped_json(s: ScopedPdu) -> String {
    format!(
        "{{\"ctx_engine_id\":\"{}\",\"pdu\":{}}}",
        hex(s.engine_id),
        pdu_json(s.pdu)
    )
}

fn v3_json(m: SnmpV3Message) -> String {
    let data = match m.data {
        MsgData::Plaintext(s) => format!("{{\"plain\":{}}}", scoped_json(s)),
        MsgData::Encrypted(e) => format!("{{\"enc\":\"{}\"}}", hex(e)),
    };
    format!(
        "{{\"msg_id\":{},\"auth\":{},\"priv\":{},\"report\":{},\"engine_id\":\"{}\",\"boots\":{},\"time\":{},\"user\":\"{}\",\"auth_params\":\"{}\",\"priv_params\":\"{}\",\"data\":{}}}",
        m.msg_id, m.flag_auth, m.flag_priv, m.flag_report,
        hex(m.usm.engine_id), m.usm.engine_boots, m.usm.engine_time,
        hex(m.usm.user_name), hex(m.usm.auth_params), hex(m.usm.privacy_params), data
    )
}

struct Owned {
    oids: Vec<Vec<u8>>,
}

// pdu spec: kind, reqid, nr, mr, oids(comma separated raw hex, "-" for none)
fn parse_pdu_spec<'a>(f: &[&str], store: &'a Owned) -> Result<SnmpPdu<'a>, String> {
    let kind = f[0];
    let rid: i64 = f[1].parse().map_err(|_| "bad reqid")?;
    let nr: i64 = f[2].parse().map_err(|_| "bad nr")?;
    let mr: i64 = f[3].parse().map_err(|_| "bad mr")?;
    let vars: Vec<SnmpOid<'a>> = store
        .oids
        .iter()
        .map(|o| SnmpOid::from(o.clone()))
        .collect();
    Ok(match kind {
        "get" => SnmpPdu::GetRequest(SnmpGet {
            request_id: rid,
            vars,
        }),
        "next" => SnmpPdu::GetNextRequest(SnmpGet {
            request_id: rid,
            vars,
        }),
        "bulk" => SnmpPdu::GetBulkRequest(verif::getbulk(rid, nr, mr, vars)),
        _ => return Err("bad pdu kind".into()),
    })
}

fn parse_oids(s: &str) -> Owned {
    Owned {
        oids: if s == "-" {
            vec![]
        } else {
            s.split(',').map(unhex).collect()
        },
    }
}

fn e(x: SnmpError) -> String {
    format!("err\t{:?}", x)
}

fn run(f: &[&str], privs: &mut HashMap<String, PrivKey>) -> String {
    match f[0] {
        "msg" => {
            let d = unhex(f[2]);
            match f[1] {
                "v1" => match SnmpV1Message::try_from(d.as_slice()) {
                    Ok(m) => format!(
                        "ok\t{{\"community\":\"{}\",\"pdu\":{}}}",
                        hex(m.community),
                        pdu_json(m.pdu)
                    ),
                    Err(x) => e(x),
                },
                "v2c" => match SnmpV2cMessage::try_from(d.as_slice()) {
                    Ok(m) => format!(
                        "ok\t{{\"community\":\"{}\",\"pdu\":{}}}",
                        hex(m.community),
                        pdu_json(m.pdu)
                    ),
                    Err(x) => e(x),
                },
                "v3" => match SnmpV3Message::try_from(d.as_slice()) {
                    Ok(m) => format!("ok\t{}", v3_json(m)),
                    Err(x) => e(x),
                },
                _ => "bad\tversion".into(),
            }
        }
        "typed" => {
            let d = unhex(f[2]);
            match verif::typed_from_ber(f[1], &d) {
                Ok((n, s)) => format!("ok\t{}\t{}", n, s),
                Err(x) => e(x),
            }
        }
        "value" => {
            let d = unhex(f[1]);
            match gufo_snmp::snmp::value::SnmpValue::from_ber(&d) {
                Ok((t, v)) => format!("ok\t{}\t{}", t.len(), value_json(&verif::project(v))),
                Err(x) => e(x.into()),
            }
        }
        "oidparse" => {
            let t = unhex(f[1]);
            let s = match std::str::from_utf8(&t) {
                Ok(s) => s,
                Err(_) => return "bad\tutf8".into(),
            };
            match SnmpOid::try_from(s) {
                Ok(o) => format!("ok\t{}", hex(&Vec::<u8>::from(&o))),
                Err(x) => e(x),
            }
        }
        "oidtext" => {
            let o = SnmpOid::from(unhex(f[1]));
            match String::try_from(&o) {
                Ok(s) => format!("ok\t{}", s),
                Err(x) => e(x),
            }
        }
        "intenc" => {
            let v: i64 = f[1].parse().unwrap();
            let mut b = Buffer::default();
            let si: SnmpInt = v.into();
            match si.push_ber(&mut b) {
                Ok(()) => format!("ok\t{}", hex(b.data())),
                Err(x) => e(x),
            }
        }
        "oidenc" => {
            let o = SnmpOid::from(unhex(f[1]));
            let mut b = Buffer::default();
            match o.push_ber(&mut b) {
                Ok(()) => format!("ok\t{}", hex(b.data())),
                Err(x) => e(x),
            }
        }
        // enc_c  ver  community  kind reqid nr mr oids
        "enc_c" => {
            let comm = unhex(f[2]);
            let store = parse_oids(f[7]);
            let pdu = match parse_pdu_spec(&f[3..7], &store) {
                Ok(p) => p,
                Err(x) => return format!("bad\t{}", x),
            };
            let mut b = Buffer::default();
            let r = match f[1] {
                "v1" => SnmpV1Message {
                    community: &comm,
                    pdu,
                }
                .push_ber(&mut b),
                _ => SnmpV2cMessage {
                    community: &comm,
                    pdu,
                }
                .push_ber(&mut b),
            };
            match r {
                Ok(()) => format!("ok\t{}", hex(b.data())),
                Err(x) => e(x),
            }
        }
        // enc_v3 msgid flags engine boots time user authp privp plain ctxengine kind reqid nr mr oids
        // enc_v3 msgid flags engine boots time user authp privp enc datahex
        "enc_v3" => {
            let msg_id: i64 = f[1].parse().unwrap();
            let flags: u8 = f[2].parse().unwrap();
            let engine = unhex(f[3]);
            let boots: i64 = f[4].parse().unwrap();
            let time: i64 = f[5].parse().unwrap();
            let user = unhex(f[6]);
            let authp = unhex(f[7]);
            let privp = unhex(f[8]);
            let ctx;
            let store;
            let encd;
            let data = if f[9] == "plain" {
                ctx = unhex(f[10]);
                store = parse_oids(f[15]);
                let pdu = match parse_pdu_spec(&f[11..15], &store) {
                    Ok(p) => p,
                    Err(x) => return format!("bad\t{}", x),
                };
                MsgData::Plaintext(ScopedPdu {
                    engine_id: &ctx,
                    pdu,
                })
            } else {
                encd = unhex(f[10]);
                MsgData::Encrypted(&encd)
            };
            let m = SnmpV3Message {
                msg_id,
                flag_auth: flags & 1 != 0,
                flag_priv: flags & 2 != 0,
                flag_report: flags & 4 != 0,
                usm: UsmParameters {
                    engine_id: &engine,
                    engine_boots: boots,
                    engine_time: time,
                    user_name: &user,
                    auth_params: &authp,
                    privacy_params: &privp,
                },
                data,
            };
            let mut b = Buffer::default();
            match m.push_ber(&mut b) {
                Ok(()) => {
                    let bm = if authp.is_empty() {
                        -1
                    } else {
                        b.get_bookmark() as i64
                    };
                    format!("ok\t{}\t{}", hex(b.data()), bm)
                }
                Err(x) => e(x),
            }
        }
        "priv_new" => {
            let alg: u8 = f[2].parse().unwrap();
            let key = unhex(f[3]);
            match PrivKey::new(alg) {
                Ok(mut k) => match k.as_localized(&key) {
                    Ok(()) => {
                        privs.insert(f[1].to_string(), k);
                        "ok".into()
                    }
                    Err(x) => e(x),
                },
                Err(x) => e(x),
            }
        }
        "priv_salt" => {
            let v: u64 = f[2].parse().unwrap();
            match privs.get_mut(f[1]) {
                Some(k) => {
                    verif::set_salt(k, v);
                    "ok".into()
                }
                None => "bad\tslot".into(),
            }
        }
        // priv_enc slot boots time ctxengine kind reqid nr mr oids
        "priv_enc" => {
            let boots: u32 = f[2].parse().unwrap();
            let time: u32 = f[3].parse().unwrap();
            let ctx = unhex(f[4]);
            let store = parse_oids(f[9]);
            let pdu = match parse_pdu_spec(&f[5..9], &store) {
                Ok(p) => p,
                Err(x) => return format!("bad\t{}", x),
            };
            let sp = ScopedPdu {
                engine_id: &ctx,
                pdu,
            };
            match privs.get_mut(f[1]) {
                Some(k) => match k.encrypt(&sp, boots, time) {
                    Ok((d, s)) => format!("ok\t{}\t{}", hex(s), hex(d)),
                    Err(x) => e(x),
                },
                None => "bad\tslot".into(),
            }
        }
        // priv_dec slot boots time privparams data
        "priv_dec" => {
            let boots: i64 = f[2].parse().unwrap();
            let time: i64 = f[3].parse().unwrap();
            let pp = unhex(f[4]);
            let d = unhex(f[5]);
            let usm = UsmParameters {
                engine_id: &[],
                engine_boots: boots,
                engine_time: time,
                user_name: &[],
                auth_params: &[],
                privacy_params: &pp,
            };
            match privs.get_mut(f[1]) {
                Some(k) => match k.decrypt(&d, &usm) {
                    Ok(s) => format!("ok\t{}", scoped_json(s)),
                    Err(x) => e(x),
                },
                None => "bad\tslot".into(),
            }
        }
        // auth_key code key engine -> localized key in use
        "auth_key" => {
            let code: u8 = f[1].parse().unwrap();
            let key = unhex(f[2]);
            let eng = unhex(f[3]);
            match AuthKey::new(code) {
                Ok(mut a) => match a.as_key_type(code, &key, &eng) {
                    Ok(()) => format!("ok\t{}", hex(a.get_key())),
                    Err(x) => e(x),
                },
                Err(x) => e(x),
            }
        }
        "master" => {
            let code: u8 = f[1].parse().unwrap();
            let pw = unhex(f[2]);
            match AuthKey::new(code) {
                Ok(a) => {
                    let mut out = vec![0u8; a.get_key_size()];
                    a.password_to_master(&pw, &mut out);
                    format!("ok\t{}", hex(&out))
                }
                Err(x) => e(x),
            }
        }
        "localize" => {
            let code: u8 = f[1].parse().unwrap();
            let key = unhex(f[2]);
            let eng = unhex(f[3]);
            match AuthKey::new(code) {
                Ok(a) => {
                    let mut out = vec![0u8; a.get_key_size()];
                    a.localize(&key, &eng, &mut out);
                    format!("ok\t{}", hex(&out))
                }
                Err(x) => e(x),
            }
        }
        // sign code localizedkey offset msg
        "sign" => {
            let code: u8 = f[1].parse().unwrap();
            let key = unhex(f[2]);
            let off: usize = f[3].parse().unwrap();
            let mut msg = unhex(f[4]);
            match AuthKey::new(code) {
                Ok(mut a) => {
                    a.as_localized(&key);
                    match a.sign(&mut msg, off) {
                        Ok(()) => format!("ok\t{}", hex(&msg)),
                        Err(x) => e(x),
                    }
                }
                Err(x) => e(x),
            }
        }
        _ => "bad\tcommand".into(),
    }
}

fn main() {
    let stdin = io::stdin();
    let stdout = io::stdout();
    let mut out = io::BufWriter::new(stdout.lock());
    let mut privs: HashMap<String, PrivKey> = HashMap::new();
    for line in stdin.lock().lines() {
        let line = match line {
            Ok(l) => l,
            Err(_) => break,
        };
        if line.is_empty() {
            continue;
        }
        let f: Vec<&str> = line.split('\t').collect();
        let r = match guarded(|| run(&f, &mut privs)) {
            Ok(s) => s,
            Err(p) => format!("panic\t{}", p),
        };
        let _ = writeln!(out, "{}", r);
    }
    let _ = out.flush();
}
