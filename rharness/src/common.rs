// Shared helpers for the Rig R harness binaries.
#![allow(dead_code)]
use std::cell::RefCell;
use std::panic;
use std::sync::Once;

thread_local! {
    static LAST_PANIC: RefCell<Option<String>> = const { RefCell::new(None) };
}

static HOOK: Once = Once::new();

/// Install a panic hook that records "file:line:col: message" instead of printing.
pub fn install_panic_hook() {
    HOOK.call_once(|| {
        panic::set_hook(Box::new(|info| {
            let loc = info
                .location()
                .map(|l| format!("{}:{}:{}", l.file(), l.line(), l.column()))
                .unwrap_or_else(|| "?".into());
            let msg = if let Some(s) = info.payload().downcast_ref::<&str>() {
                (*s).to_string()
            } else if let Some(s) = info.payload().downcast_ref::<String>() {
                s.clone()
            } else {
                "?".into()
            };
            LAST_PANIC.with(|p| *p.borrow_mut() = Some(format!("{}: {}", loc, msg)));
        }));
    });
}

/// Run f; Err(location: message) if it panicked.
pub fn guarded<T>(f: impl FnOnce() -> T) -> Result<T, String> {
    install_panic_hook();
    match panic::catch_unwind(panic::AssertUnwindSafe(f)) {
        Ok(v) => Ok(v),
        Err(_) => Err(LAST_PANIC
            .with(|p| p.borrow_mut().take())
            .unwrap_or_else(|| "?: panic".into())),
    }
}

pub fn hex(b: &[u8]) -> String {
    let mut s = String::with_capacity(b.len() * 2);
    for x in b {
        s.push_str(&format!("{:02x}", x));
    }
    s
}

pub fn unhex(s: &str) -> Vec<u8> {
    let s = s.trim();
    if s == "-" {
        return vec![];
    }
    let b = s.as_bytes();
    let mut out = Vec::with_capacity(b.len() / 2);
    let mut i = 0;
    while i + 1 < b.len() {
        let h = (b[i] as char).to_digit(16).unwrap_or(0) as u8;
        let l = (b[i + 1] as char).to_digit(16).unwrap_or(0) as u8;
        out.push(h << 4 | l);
        i += 2;
    }
    out
}

pub fn jstr(s: &str) -> String {
    let mut o = String::from("\"");
    for c in s.chars() {
        match c {
            '"' => o.push_str("\\\""),
            '\\' => o.push_str("\\\\"),
            '\n' => o.push_str("\\n"),
            '\r' => o.push_str("\\r"),
            '\t' => o.push_str("\\t"),
            c if (c as u32) < 0x20 => o.push_str(&format!("\\u{:04x}", c as u32)),
            c => o.push(c),
        }
    }
    o.push('"');
    o
}

/// xorshift64* PRNG: deterministic given the seed, no external crate
pub struct Rng(pub u64);
impl Rng {
    pub fn new(seed: u64) -> Self {
        Rng(seed.wrapping_mul(0x9E3779B97F4A7C15) | 1)
    }
    pub fn next(&mut self) -> u64 {
        let mut x = self.0;
        x ^= x >> 12;
        x ^= x << 25;
        x ^= x >> 27;
        self.0 = x;
        x.wrapping_mul(0x2545F4914F6CDD1D)
    }
    pub fn below(&mut self, n: u64) -> u64 {
        if n == 0 { 0 } else { self.next() % n }
    }
    pub fn byte(&mut self) -> u8 {
        (self.next() >> 32) as u8
    }
}

/// Independent strict DER-ish TLV walker: definite, minimal lengths, single-octet tags.
/// Returns (tag, content range start, content end) or None.
pub fn strict_tlv(d: &[u8], off: usize) -> Option<(u8, usize, usize)> {
    if off + 2 > d.len() {
        return None;
    }
    let tag = d[off];
    if tag & 0x1f == 0x1f {
        return None;
    }
    let l0 = d[off + 1];
    let (len, hdr) = if l0 < 0x80 {
        (l0 as usize, 2)
    } else {
        let n = (l0 & 0x7f) as usize;
        if n == 0 || n > 4 || off + 2 + n > d.len() {
            return None;
        }
        let mut v = 0usize;
        for k in 0..n {
            v = v << 8 | d[off + 2 + k] as usize;
        }
        // minimal
        if d[off + 2] == 0 || v < 0x80 {
            return None;
        }
        (v, 2 + n)
    };
    let s = off + hdr;
    if s + len > d.len() {
        return None;
    }
    Some((tag, s, s + len))
}

/// Independent minimal two's complement encoder (content octets only)
pub fn int_content(v: i64) -> Vec<u8> {
    let b = v.to_be_bytes();
    let mut i = 0;
    while i < 7 {
        if (b[i] == 0x00 && b[i + 1] & 0x80 == 0) || (b[i] == 0xff && b[i + 1] & 0x80 != 0) {
            i += 1;
        } else {
            break;
        }
    }
    b[i..].to_vec()
}

pub fn der_len(n: usize) -> Vec<u8> {
    if n < 0x80 {
        vec![n as u8]
    } else if n < 0x100 {
        vec![0x81, n as u8]
    } else if n < 0x10000 {
        vec![0x82, (n >> 8) as u8, n as u8]
    } else {
        vec![0x83, (n >> 16) as u8, (n >> 8) as u8, n as u8]
    }
}

pub fn der_tlv(tag: u8, content: &[u8]) -> Vec<u8> {
    let mut v = vec![tag];
    v.extend(der_len(content.len()));
    v.extend_from_slice(content);
    v
}
