"""Random API-call programs against scripted agents, with a model of what every
emitted datagram must look like.  Shared by C03 / C09 / C11 / C13 / C14 / C17:
the workload knobs and the aspects judged differ per property, the oracle
(`judge_request`) is one.

History is recorded at the boundaries only: API call + outcome on the client
side; datagram received (strict-parsed, MAC-checked and decrypted by the
reference implementations) and datagram sent on the agent side."""
import random
import threading
import time

from . import ber_ref as B
from . import crypto_ref as C
from . import driver, mibagent, model as M, rigp, runner

BUF = 4080
RES_LOCK = threading.Lock()


def gen_mib(rng, n=None, root=None):
    root = root or (1, 3, 6, 1, 4, 1, rng.randrange(1, 70000))
    n = rng.randrange(0, 40) if n is None else n
    ents, seen = [], set()
    serial = rng.randrange(1, 1 << 20)
    while len(ents) < n:
        o = root + tuple(M.gen_arc(rng) if rng.random() < 0.3 else rng.randrange(0, 6) for _ in range(rng.randint(1, 4)))
        if o in seen:
            continue
        seen.add(o)
        serial += 1
        ents.append((o, B.enc_int(serial), serial))
    return mibagent.Mib(ents), root


def ref_request(cfg, st, tag, a, b, oids, rid_w, mid_w, report):
    """Reference encoding of the request the client must emit, with request-id /
    msgID of the given content widths. Returns total length (ciphertext padding
    not included for privacy)."""
    rid = {1: 1, 2: 0x100, 3: 0x10000, 4: 0x1000000}[rid_w]
    mid = {1: 1, 2: 0x100, 3: 0x10000, 4: 0x1000000}[mid_w]
    pdu = B.enc_pdu(tag, rid, a, b, [B.enc_varbind(o, B.enc_null()) for o in oids])
    if cfg.version != "v3":
        return len(B.enc_msg_c(0 if cfg.version == "v1" else 1, cfg.community.encode(), pdu))
    scoped = B.enc_scoped(st["engine_id"], b"", pdu)
    flags = (1 if st["auth"] else 0) | (2 if st["priv"] else 0) | (4 if report else 0)
    data = B.enc_octets(scoped) if st["priv"] else scoped
    usm = B.enc_usm(st["engine_id"], st["boots"], st["time"], st["user"], bytes(12 if st["auth"] else 0), bytes(8 if st["priv"] else 0))
    return len(B.enc_msg_v3(mid, 2048, flags, usm, data))


def judge_request(req, cfg, exp, st):
    """Compare one datagram seen by the agent with the model. Returns a list of
    (aspect, message). exp: tag, a, b, oids, report. st: expected USM state."""
    bad = []
    if req.m is None:
        return [("strict", "not a well-formed minimal definite-length SNMP message: %s" % req.err)]
    want_ver = {"v1": 0, "v2c": 1, "v3": 3}[cfg.version]
    if req.version != want_ver:
        bad.append(("version", "version %s, session is %s" % (req.version, cfg.version)))
        return bad
    if want_ver != 3:
        if req.m["community"] != cfg.community.encode():
            bad.append(("community", "community %r, session has %r" % (req.m["community"], cfg.community)))
    else:
        m, usm = req.m, req.m["usm"]
        if not (0 <= m["msg_id"] <= 0x7FFFFFFF):
            bad.append(("msg_id", "msgID %d outside 0..2^31-1" % m["msg_id"]))
        if m["sec_model"] != 3:
            bad.append(("flags", "security model %d" % m["sec_model"]))
        if usm["engine_id"] != st["engine_id"]:
            bad.append(("engine", "authoritative engine id %s, expected %s" % (usm["engine_id"].hex(), st["engine_id"].hex())))
        if usm["user"] != st["user"]:
            bad.append(("user", "user %r, expected %r" % (usm["user"], st["user"])))
        if (usm["boots"], usm["time"]) != (st["boots"], st["time"]):
            bad.append(("boots_time", "boots/time %d/%d, last accepted agent message had %d/%d" % (
                usm["boots"], usm["time"], st["boots"], st["time"])))
        fl = m["flags"]
        if bool(fl & 1) != st["auth"]:
            bad.append(("auth_flag", "auth flag %d but session %s an auth key" % (fl & 1, "holds" if st["auth"] else "has no")))
        if bool(fl & 2) != st["priv"]:
            bad.append(("priv_flag", "priv flag %d but session %s a priv key" % ((fl >> 1) & 1, "holds" if st["priv"] else "has no")))
        if bool(fl & 4) != bool(exp.get("report")):
            bad.append(("flags", "reportable flag %d, expected %d" % ((fl >> 2) & 1, bool(exp.get("report")))))
        if fl & ~7:
            bad.append(("flags", "reserved flag bits set: %#x" % fl))
        if st["auth"]:
            if len(usm["auth_params"]) != 12:
                bad.append(("mac", "msgAuthenticationParameters is %d octets" % len(usm["auth_params"])))
            elif req.mac_ok is not True:
                bad.append(("mac", "HMAC-96 does not verify under the reference-localized key"))
        elif usm["auth_params"] != b"":
            bad.append(("mac", "msgAuthenticationParameters present without auth key"))
        if st["priv"]:
            if "enc" not in m:
                bad.append(("priv", "msgData is not an OCTET STRING although privacy is configured"))
            elif len(usm["priv_params"]) != 8:
                bad.append(("salt", "msgPrivacyParameters is %d octets" % len(usm["priv_params"])))
            elif not req.decrypt_ok:
                bad.append(("priv", "msgData does not decrypt to a scoped PDU under the reference cipher: %s" % req.err))
            else:
                block = 8 if cfg.priv == "des" else 16
                if req.pad >= block:
                    bad.append(("priv", "%d octets follow the scoped PDU inside msgData (>= one %d-octet block)" % (req.pad, block)))
        else:
            if "enc" in m:
                bad.append(("priv", "msgData encrypted although no privacy is configured"))
            if usm["priv_params"] != b"":
                bad.append(("salt", "msgPrivacyParameters present without privacy"))
        if req.scoped is not None:
            if req.scoped["ctx_engine_id"] != st["engine_id"]:
                bad.append(("engine", "context engine id %s, expected %s" % (req.scoped["ctx_engine_id"].hex(), st["engine_id"].hex())))
            if req.scoped["ctx_name"] != b"":
                bad.append(("engine", "context name %r" % req.scoped["ctx_name"]))
    if req.pdu is None:
        if not bad:
            bad.append(("strict", "no PDU: %s" % req.err))
        return bad
    p = req.pdu
    if p["tag"] != exp["tag"]:
        bad.append(("pdu_tag", "PDU tag %#x, API call requires %#x" % (p["tag"], exp["tag"])))
    if not (0 <= p["request_id"] <= 0x7FFFFFFF):
        bad.append(("request_id", "request-id %d outside 0..2^31-1" % p["request_id"]))
    if (p["a"], p["b"]) != (exp["a"], exp["b"]):
        bad.append(("bulk_params", "fields after request-id are %d/%d, expected %d/%d" % (p["a"], p["b"], exp["a"], exp["b"])))
    got = [vb[0] for vb in p["varbinds"]]
    if got != list(exp["oids"]):
        bad.append(("oids", "OIDs %s, expected %s" % ([B.oid_text(o) for o in got][:6], [B.oid_text(o) for o in exp["oids"]][:6])))
    for vb in p["varbinds"]:
        if vb[1][0] != "Null":
            bad.append(("oids", "varbind value is %s, not NULL" % (vb[1],)))
            break
    return bad


class Sess:
    """One live session + its agent + the model of its USM state."""

    def __init__(self, idx, cfg, rng, knobs):
        self.idx, self.cfg, self.rng, self.k = idx, cfg, rng, knobs
        eng_len = rng.choice(knobs.get("engine_lens", [8, 5, 12, 17, 32]))
        self.engine_id = bytes([0x80, 0, 0x1F, 0x88] + [rng.randrange(256) for _ in range(eng_len - 4)])
        if rng.random() < knobs.get("structured_engine", 0.25):
            # engine ids as real agents build them (RFC 3411 formats): long runs of one octet - an IPv6 link-local address,
            # a zero-padded serial, all-ones filler - i.e. octet patterns that also occur elsewhere in a message
            # (the zeroed msgAuthenticationParameters placeholder, padding, salts)
            self.engine_id = bytes([0x80, 0, 0x1F, 0x88]) + rng.choice([
                bytes([2, 0xFE, 0x80] + [0] * 13 + [1]),
                bytes([2] + [0] * 15 + [1]),
                bytes([0] * rng.choice([11, 12, 13, 27]) + [1]),
                bytes([5] + [0] * rng.choice([12, 16, 26])),
                bytes([0xFF] * rng.choice([12, 13, 24])),
                bytes([4]) + b"0" * rng.choice([12, 20]),
                bytes([5, 0x04, 0x0C] + [0] * 12 + [1]),          # looks like an empty msgAuthenticationParameters field
                bytes([5, 0x04, 0x08] + [0] * 8 + [0x04, 0x0C] + [0xFF] * 12),
            ])
        boots, tm = self.new_ident()
        self.agent = rigp.Agent(self.handle, engine_id=self.engine_id, boots=boots, etime=tm,
                                users=[cfg.user_keys()], rng=random.Random(rng.random()))
        if rng.random() < knobs.get("foreign_context", 0.3):
            # an agent whose scoped PDUs (Reports included) carry a contextEngineID that is not its authoritative engine
            # id (a proxy / several contexts - RFC 3411 allows it), or none at all: nothing the client stamps on its
            # requests may be taken from there
            self.agent.ctx_engine_id = rng.choice([b"", bytes([0x80, 0, 0xC0, 0x17] + [rng.randrange(256) for _ in range(rng.choice([1, 5, 8]))])])
        if knobs.get("reply_pad") and cfg.priv:
            orig_reply = self.agent.reply

            def reply(req, *a, **kw):
                # agent-side encryption with arbitrary trailing octets after the scoped PDU
                if "pad" not in kw and kw.get("encrypt", True) is not False and kw.get("pdu_tag") != B.PDU_REPORT:
                    kw["pad"] = bytes(rng.randrange(256) for _ in range(rng.choice([0, 0, 1, 7, 8, 15, 16, 31])))
                return orig_reply(req, *a, **kw)
            self.agent.reply = reply
        self.mib, self.root = gen_mib(rng, n=knobs.get("mib_n"))
        self.allow_bulk = rng.random() < 0.7
        self.max_rep = rng.choice([1, 2, 5, 20, 50])
        self.timeout = knobs.get("timeout", 1.0)
        self.drv = None
        v3 = cfg.version == "v3"
        self.st = {"engine_id": self.engine_id if (v3 and cfg.engine_given) else b"", "boots": 0, "time": 0,
                   "user": (cfg.user.encode() if (not v3 or cfg.engine_given) else b""),
                   "auth": bool(cfg.auth) and cfg.engine_given, "priv": bool(cfg.priv) and cfg.engine_given}
        self.exp = None          # expectation for the next datagram (None = none expected)
        self.beh = "reply"
        self.op = None
        self.step_reqs, self.step_bad, self.accepted = [], [], 0
        self.walk = None
        self.cap = None
        self.lock = threading.Lock()

    def new_ident(self):
        if self.rng.random() < self.k.get("ident_wild", 0.0):
            # engine boots / time outside 0..2^31-1 (a broken or hostile agent): the client echoes what it accepted, and
            # where 32 bits of them enter a salt or an IV, encoder and decoder must take the same 32 bits
            wild = [(1 << 32) + 5, -1, 1 << 31, (1 << 32) - 1, (1 << 40) + 7, -(1 << 31)]
            return self.rng.choice(wild + [3]), self.rng.choice(wild + [9])
        w = self.rng.choice(self.k.get("ident_widths", [1, 2, 3, 4]))
        hi = min((1 << (8 * w - 1)) - 1, 0x7FFFFFFF)
        lo = 0 if w == 1 else 1 << (8 * (w - 1) - 1)
        return self.rng.randrange(lo, hi + 1), self.rng.randrange(lo, hi + 1)

    def start(self):
        self.agent.start()
        kw = {"user": self.user_obj} if getattr(self, "user_obj", None) is not None else {}
        self.drv = driver.Driver(self.cfg, self.agent, timeout=self.timeout, allow_bulk=self.allow_bulk,
                                 max_repetitions=self.max_rep, **kw).create()

    def stop(self):
        self.agent.stop()
        if self.drv:
            self.drv.close()

    # ---- agent side
    def accept(self, boots, tm):
        """The reply we are about to send matches -> the client must adopt its boots/time."""
        self.st["boots"], self.st["time"] = boots, tm
        self.accepted += 1

    def handle(self, agent, req):
        self.step_reqs.append(req)
        if getattr(self, "probing", False):
            # deafness probe after an unexpected timeout: answer plainly, judge nothing
            if not req.ok:
                return None
            if req.version == 3 and req.m["usm"]["engine_id"] == b"":
                return agent.report(req, rigp.REPORT_UNKNOWN_ENGINE, flags=0, mac="empty", encrypt=False)
            return agent.reply(req, self.mib.vb_get(req.oids()))
        exp = self.exp
        if exp is None:
            self.step_bad.append(("count", "datagram although none is expected for %s: %s" % (self.op, req.raw.hex()[:120]), req))
            return None
        for aspect, msg in judge_request(req, self.cfg, exp, self.st):
            self.step_bad.append((aspect, msg, req))
        if not req.ok:
            self.exp = None
            return None
        self.exp = None
        # change identity (boots/time) on every reply
        if self.k.get("ident_change", True):
            agent.boots, agent.time = self.new_ident()
        v3 = req.version == 3
        out = []
        if self.beh == "drop":
            return None
        if self.beh in ("stray", "stray_drop"):
            # non-matching but well-formed datagrams first: must not disturb the session state
            sb, stm = self.new_ident()
            for _ in range(self.rng.randint(1, 3)):
                out.append(agent.reply(req, [B.enc_varbind((1, 3, 9), B.enc_int(666))],
                                       request_id=(req.request_id + self.rng.randrange(1, 1000)) & 0x7FFFFFFF, boots=sb, time=stm))
            if v3 and req.m["usm"]["engine_id"] != b"" and self.rng.random() < 0.5:
                # right ids, but from an engine whose id merely *extends* (or is a prefix of) the session's: foreign
                eid = self.engine_id + b"\x00\x01" if self.rng.random() < 0.6 else self.engine_id[:-1]
                out.append(agent.reply(req, [B.enc_varbind((1, 3, 9), B.enc_int(667))], engine_id=eid, boots=sb, time=stm))
        if self.beh == "stray_drop":
            return out  # strays only, the genuine reply is lost: the call must time out
        if v3 and req.m["usm"]["engine_id"] == b"":
            # discovery.  Sometimes datagrams from a *foreign* engine that fail one header field (msgID,
            # user name; not the request-id, which the client deliberately ignores on Reports) arrive first: they are skipped, so they must leave no trace - the
            # engine id is learnt from the Report that is accepted, not from whatever arrives first.
            if self.rng.random() < self.k.get("open_stray", 0.3):
                fe = bytes([0x80, 0, 0xC0, 0xDE] + [self.rng.randrange(256) for _ in range(self.rng.choice([1, 4, 8, 13]))])
                sb, stm = self.new_ident()
                for _ in range(self.rng.randint(1, 2)):
                    how = self.rng.choice(["msg_id", "user"])
                    ov = {"msg_id": {"msg_id": (req.m["msg_id"] + self.rng.choice([1, -1, 7])) & 0x7FFFFFFF},
                          "user": {"user": b"someone-else"}}[how]
                    out.append(agent.report(req, rigp.REPORT_UNKNOWN_ENGINE, flags=0, mac="empty", encrypt=False,
                                            engine_id=fe, boots=sb, time=stm, **ov))
                self.open_strays = getattr(self, "open_strays", 0) + 1
            self.accept(agent.boots, agent.time)
            self.st["engine_id"] = self.engine_id
            out.append(agent.report(req, rigp.REPORT_UNKNOWN_ENGINE, flags=0, mac="empty", encrypt=False))
            if self.op in ("open", "refresh"):
                # keys are installed after discovery; a second probe follows if the user has an auth key
                # (the client always sends a second probe after discovery, also for noAuth users)
                self.st.update(user=self.cfg.user.encode(), auth=bool(self.cfg.auth), priv=bool(self.cfg.priv))
                self.exp = {"tag": B.PDU_GET, "a": 0, "b": 0, "oids": [], "report": True}
            return out
        if self.op in ("open", "refresh"):
            self.accept(agent.boots, agent.time)
            out.append(agent.report(req, rigp.REPORT_NOT_IN_TIME, flags=req.m["flags"] & 1, encrypt=False))
            return out
        tag = req.pdu["tag"]
        pad = []
        if self.beh == "big":
            pad = [B.enc_varbind((1, 3, 9, 9), B.enc_octets(bytes(self.rng.randrange(256) for _ in range(self.rng.choice([200, 1000, 3000])))))]
        if self.walk is not None:
            base = self.walk["base"]
            if tag == B.PDU_GETNEXT:
                e = self.mib.getnext_one(req.oids()[0])
                if e is None:
                    self.accept(agent.boots, agent.time)
                    if req.version == 0:
                        out.append(agent.reply(req, [B.enc_varbind(req.oids()[0], B.enc_null())], error_status=2, error_index=1))
                    else:
                        out.append(agent.reply(req, [B.enc_varbind(req.oids()[0], M.EXC_TLV["EndOfMibView"])]))
                    return out
                vbs = [B.enc_varbind(e[0], e[1])]
                ents = [e]
            else:
                cap = self.cap
                vbs = self.mib.vb_getbulk(req.oids(), req.pdu["a"], req.pdu["b"], cap)
                ents, cur = [], req.oids()[0]
                for _ in range(len(vbs)):
                    e = self.mib.getnext_one(cur)
                    ents.append(e)
                    if e is None:
                        break
                    cur = e[0]
            # what must the client do next?  Exception-valued varbinds carry no data and are
            # skipped; the walk ends at the first data value outside the subtree, or when a
            # reply carries no data value at all; otherwise it continues from the last accepted OID.
            nxt, ended = None, False
            for e in ents:
                if e is None:
                    continue
                if not (len(e[0]) > len(base) and e[0][:len(base)] == base):
                    ended = True
                    break
                nxt = e[0]
            if nxt is None:
                ended = True
            if not ended and nxt is not None:
                self.exp = dict(self.walk["exp"], oids=[nxt])
            self.accept(agent.boots, agent.time)
            out.append(agent.reply(req, vbs))
            return out
        self.accept(agent.boots, agent.time)
        if tag == B.PDU_GET and not req.oids():
            out.append(agent.reply(req, []))
        else:
            vbs = self.mib.vb_get(req.oids())
            dg = agent.reply(req, vbs + pad)
            if len(dg) > 3900:  # would not fit the client's receive buffer: send it without the ballast
                dg = agent.reply(req, vbs)
            while len(dg) > 3900:  # still too big: answer for fewer names, as a size-limited agent does
                self.trimmed = True
                vbs = vbs[:len(vbs) // 2]
                dg = agent.reply(req, vbs)
            out.append(dg)
        return out

    # ---- client side: one API call
    def step(self, res, aspects):
        rng, cfg = self.rng, self.cfg
        v3 = cfg.version == "v3"
        ops = list(self.k.get("ops", ["get", "get_many", "getnext", "getbulk", "fetch", "refresh", "bad_oid", "oversize"]))
        if self.drv.s is None:
            return
        forced = getattr(self, "force_next", None)
        self.force_next = None
        if getattr(self, "opened", False) and not getattr(self, "idled", False) and rng.random() < self.k.get("idle_prob", 0.02):
            # more than a whole second without traffic: nothing about the next request may depend on wall-clock time
            self.idled = True
            time.sleep(1.15)
        if (getattr(self, "opened", False) and v3 and cfg.auth and cfg.priv and cfg.priv_kt != "master" and self.st.get("auth")
                and rng.random() < self.k.get("refused_keys", 0.03)):
            # a key change that is refused (unusable privacy key) on the live socket: it raises, sends nothing and leaves
            # everything - engine id, user, keys, salt counter - as it was; the steps that follow are judged as usual
            try:
                u = getattr(self, "user_obj", None) or rigp.make_user(cfg, self.engine_id)
                junk = b"" if cfg.priv_kt == "password" else b"\x01" * 5
                try:
                    self.drv.s._sock.set_keys(u.name, u.get_auth_alg(), u.get_auth_key(), u.get_priv_alg(), junk)
                    accepted = True
                except Exception:
                    accepted = False
                with RES_LOCK:
                    res["ops"]["refused_keys"] = res["ops"].get("refused_keys", 0) + 1
                    if accepted and (not aspects or "outcome" in aspects) and len(res["bad"]) < 200:
                        res["bad"].append({"aspect": "outcome", "msg": "set_keys with an unusable privacy key (%r) was accepted" % junk, "cfgkey": cfg.key(), "cfg": cfg.to_json(),
                                           "op": "refused_keys", "args": "", "behaviour": "", "outcome": "accepted", "datagram": None, "state": {}})
            except Exception as e:   # harness-side problem (e.g. no private socket attribute): not a verdict
                res["harness"].append("refused_keys: %r" % e)
        if not getattr(self, "opened", False):
            op = "open"
            forced = None
        elif forced:
            op = forced[0]
        else:
            op = rng.choice(ops)
        if op == "refresh" and not v3:
            op = "get"
        if op == "getbulk" and cfg.version == "v1":
            op = "getnext"
        self.op, self.walk, self.exp, self.step_reqs, self.step_bad = op, None, None, [], []
        self.trimmed, self.want = False, None
        w = list(self.k.get("beh_weights", [76, 2, 10, 12]))
        w = w + [self.k.get("stray_drop_weight", 2)] if len(w) == 4 else w
        self.beh = rng.choices(["reply", "drop", "big", "stray", "stray_drop"], w)[0]
        self.cap = rng.choice([None, 1, 2, 3, 7])
        keys = self.mib.keys
        args, expect_sent = (), True
        if op == "open":
            # sometimes the very first probe is lost: the context entry times out and is retried on the same session
            self.beh = "drop" if (rng.random() < self.k.get("open_drop", 0.15) and getattr(self, "open_tries", 0) < 2) else "reply"
            self.open_tries = getattr(self, "open_tries", 0) + 1
            if v3 and (not cfg.engine_given or cfg.auth):
                self.exp = {"tag": B.PDU_GET, "a": 0, "b": 0, "oids": [], "report": True}
            else:
                expect_sent = False
                self.beh = "reply"
            self.opened = self.beh == "reply"
        elif op == "refresh":
            self.beh = "reply" if self.beh != "drop" else "drop"
            if cfg.auth:
                self.exp = {"tag": B.PDU_GET, "a": 0, "b": 0, "oids": [], "report": True}
            else:
                expect_sent = False
        elif op == "get":
            o = rng.choice(keys) if keys and rng.random() < 0.7 else M.gen_oid(rng, 2, rng.choice([14, 14, 40, 128]))
            args = (B.oid_text(o),)
            self.exp = {"tag": B.PDU_GET, "a": 0, "b": 0, "oids": [o]}
            e = self.mib.get(o)
            self.want = ("ok", e[2]) if e else ("exc", "NoSuchInstance")
        elif op == "get_many":
            n = rng.choice([0, 1, 2, 5, 17, 40, 60, rng.randrange(0, 61)])
            oids = [rng.choice(keys) if keys and rng.random() < 0.5 else M.gen_oid(rng, 2, rng.choice([4, 14, 30, 128] if n < 20 else [4, 14, 30])) for _ in range(n)]
            if rng.random() < 0.04:
                # more names than a u8 counts (short ones, so that the request still fits)
                n = rng.choice([255, 256, 257])
                oids = [(1, 3, rng.randrange(128), rng.randrange(128), k % 128) for k in range(n)]
            args = ([B.oid_text(o) for o in oids],)
            self.exp = {"tag": B.PDU_GET, "a": 0, "b": 0, "oids": oids, "report": v3 and n == 0}
            self.want = ("ok", {B.oid_text(o): self.mib.get(o)[2] for o in oids if self.mib.get(o)})
        elif op in ("getnext", "getbulk", "fetch"):
            base = self.root[:rng.randrange(3, len(self.root) + 1)] if rng.random() < 0.8 else M.gen_oid(rng, 2, 6)
            if keys and rng.random() < 0.2:
                base = rng.choice(keys)[:-1]
            if forced:
                base = forced[1]
            bulk = op == "getbulk" or (op == "fetch" and self.allow_bulk and cfg.version != "v1")
            m = None
            if op == "getbulk":
                m = rng.choice([None, 1, 2, 127, 128, 255, 256, 65535, 2 ** 31 - 1, rng.randrange(1, 2 ** 31)])
            if forced:
                m = forced[2]
            # sometimes the caller abandons the walk after one or two items (break) and walks the same base again
            self.abandon = (not forced) and self.beh != "drop" and rng.random() < self.k.get("abandon_prob", 0.12)
            mr = (m or self.max_rep) if bulk else 0
            e = {"tag": B.PDU_GETBULK if bulk else B.PDU_GETNEXT, "a": 0, "b": mr, "oids": [base]}
            self.exp, self.walk = dict(e), {"base": base, "exp": e}
            if self.beh in ("stray", "big", "stray_drop"):
                self.beh = "reply"
            if self.cap is None and bulk:
                self.cap = 25
            args = (B.oid_text(base),) if (op != "getbulk" or m is None) else (B.oid_text(base), m)
            self.want = ("ok", [(B.oid_text(e[0]), e[2]) for e in self.mib.subtree(base)])
        elif op == "bad_oid":
            args = (rng.choice(["", "1", "x.y", "1..3", ".1.3", "1.3.", "1.3.-1", "1.3.4294967296", "1.3.6.1.a"]),)
            op, expect_sent = rng.choice(["get", "getnext", "getbulk" if cfg.version != "v1" else "getnext"]), False
            if op != "get":
                self.walk = {"base": (1, 3), "exp": {}}
        elif op == "oversize":
            n = rng.choice([300, 500, 800])
            oids = [M.gen_oid(rng, 12, 14) for _ in range(n)]
            args = ([B.oid_text(o) for o in oids],)
            op, expect_sent = "get_many", False
        exp0 = self.exp
        if not expect_sent:
            self.exp = None
        call_op = {"open": "open"}.get(op, op)
        if op == "get_many" and args and rng.random() < 0.3:
            call_op = "get_many_gen"   # the names as a one-shot iterator
        if op == "open" and self.beh == "drop" and cfg.client == "async" and rng.random() < 0.5:
            call_op = "open_cancel"   # the lost first exchange ends by cancellation from outside instead of the session's timeout
        lim = 5000
        if self.walk is not None and getattr(self, "abandon", False) and self.op in ("getnext", "getbulk", "fetch"):
            lim = rng.choice([1, 2])
            self.force_next = (self.op, self.walk["base"], m)
        out = self.drv.call(call_op, *args, limit=lim)
        if lim < 5000 and out[0] == "ok" and out[1] and out[1][-1] == "LIMIT":
            # abandoned on purpose: the model's "next expected datagram" and the full result do not apply
            self.exp, self.want = None, None
        if not expect_sent:
            time.sleep(0.003)
        with RES_LOCK:
            self._record(res, aspects, out, args, expect_sent)
        if self.desync and getattr(self, "opened", False):
            self.probe(res, aspects)

    def probe(self, res, aspects):
        """A call timed out although the agent answered.  Load, or is the client deaf for good (e.g. it
        now drops every genuine reply)?  Three plain exchanges decide: if all three time out while the
        agent's own log shows a reply sent within 0.3 s of each request, that is a verdict."""
        self.probing = True
        fails, notes = 0, []
        for _ in range(3):
            n0 = len(self.agent.log)
            out = self.drv.call("get", B.oid_text(self.root + (0,)))
            log = self.agent.log[n0:]
            rx = [t for k, t, _ in log if k == "rx"]
            tx = [t for k, t, _ in log if k == "tx"]
            answered = bool(rx and tx and (tx[0] - rx[0]) < 0.3e9)
            notes.append((out[0] if out[0] == "ok" else out[1]["cls"], answered))
            if out[0] == "exc" and out[1]["cls"] == "TimeoutError" and answered:
                fails += 1
            else:
                break
        self.probing = False
        if fails == 3:
            with RES_LOCK:
                if (not aspects or "deaf" in aspects) and len(res["bad"]) < 200:
                    res["bad"].append({"aspect": "deaf", "msg": "after %s the session no longer delivers any reply: 3 plain get() calls timed out although the "
                                       "agent answered each within 0.3 s %s" % (self.op, notes), "cfgkey": self.cfg.key(), "cfg": self.cfg.to_json(),
                                       "op": self.op, "args": "", "behaviour": self.beh, "outcome": "TimeoutError x3", "datagram": None,
                                       "state": {k: (v.hex() if isinstance(v, bytes) else v) for k, v in self.st.items()}})

    def _record(self, res, aspects, out, args, expect_sent):
        cfg = self.cfg
        res["calls"] += 1
        res["ops"][self.op] = res["ops"].get(self.op, 0) + 1
        # A timeout although the agent was not told to drop is a wall-clock effect of a loaded
        # machine (request or reply delayed beyond the session timeout).  Give the datagram a generous
        # grace period to arrive, then retire this logical client: the model can no longer know which
        # reply the client consumed.  Only "nothing was ever sent" remains a verdict.
        self.desync = False
        timed_out = out[0] == "exc" and out[1]["cls"] == "TimeoutError"
        if timed_out and self.beh not in ("drop", "stray_drop") and expect_sent:
            t_end = time.time() + 3.0
            while not self.step_reqs and time.time() < t_end:
                time.sleep(0.01)
            if self.step_reqs:
                self.desync = True
                res["inconclusive"].append("%s %s timed out after %.2fs although the agent was answering (load)" % (
                    cfg.key(), self.op, self.drv.last_duration))
        # count: a call that returned consumed every expected datagram; a call that was expected to
        # send did send
        if self.beh not in ("drop", "stray_drop") and self.exp is not None and out[0] == "ok":
            self.step_bad.append(("count", "call %s returned %s but the next expected datagram (%s) was never sent" % (
                self.op, repr(out[1])[:80], self.exp), None))
        if expect_sent and not self.step_reqs:
            self.step_bad.append(("count", "call %s%r -> %s sent nothing" % (self.op, args, repr(out)[:120]), None))
        if self.op == "oversize" and not (out[0] == "exc" and "EncodeError" in out[1]["cls"]):
            self.step_bad.append(("oversize", "oversized get_many(%d oids) -> %s" % (len(args[0]), repr(out)[:160]), None))
        if self.op == "bad_oid" and out[0] != "exc":
            self.step_bad.append(("bad_oid", "invalid OID text %r accepted: %s" % (args[0], repr(out)[:120]), None))
        if out[0] == "exc" and driver.classify_exc(out[1]) == "panic":
            self.step_bad.append(("panic", "%s%s raised %s: %s" % (self.op, repr(args)[:80], out[1]["cls"], out[1]["msg"][:160]), None))
        if self.want is not None and self.beh not in ("drop", "big", "stray_drop") and not self.trimmed and not timed_out:
            w = self.want
            good = (out[0] == "ok" and w[0] == "ok" and out[1] == w[1] and type(out[1]) is type(w[1])) or \
                   (out[0] == "exc" and w[0] == "exc" and out[1]["cls"].endswith(w[1]))
            if not good:
                self.step_bad.append(("result", "%s%s returned %s, the agent's MIB says %s" % (
                    self.op, repr(args)[:120], repr(out)[:200], repr(w)[:200]), None))
        if self.beh == "reply" and expect_sent and out[0] == "exc" and not timed_out and self.op not in ("bad_oid", "oversize") and \
                not (out[1]["cls"].endswith("NoSuchInstance")):
            self.step_bad.append(("outcome", "%s%s with a compliant agent raised %s: %s" % (
                self.op, repr(args)[:80], out[1]["cls"], out[1]["msg"][:160]), None))
        res["requests"] += len(self.step_reqs)
        if len(res["samples"]) < 4 and self.step_reqs and res["calls"] % 37 == 5:
            r0 = self.step_reqs[0]
            res["samples"].append({"cfg": cfg.key(), "call": "%s%s" % (self.op, repr(args)[:120]), "agent_behaviour": self.beh,
                                   "outcome": repr(out)[:120], "datagrams_seen": len(self.step_reqs), "first_datagram": r0.raw.hex()[:160],
                                   "mac_ok": r0.mac_ok, "decrypt_ok": r0.decrypt_ok, "model_disagreements": [a for a, _, _ in self.step_bad]})
        for r in self.step_reqs:
            if r.m and r.version == 3:
                u = r.m["usm"]
                res["geom"].add((len(u["engine_id"]), len(u["user"]), len(B.int_content(u["boots"])), len(B.int_content(u["time"])),
                                 r.m.get("auth_params_off"), bool(r.m["flags"] & 1), bool(r.m["flags"] & 2)))
            res["sizes"].add(len(r.raw) // 16)
        for aspect, msg, req in self.step_bad:
            if self.desync and aspect in ("count", "outcome", "result"):
                continue
            if aspects and aspect not in aspects:
                res["other_aspects"][aspect] = res["other_aspects"].get(aspect, 0) + 1
                continue
            if len(res["bad"]) < 200:
                res["bad"].append({"aspect": aspect, "msg": msg, "cfgkey": cfg.key(), "cfg": cfg.to_json(), "op": self.op,
                                   "args": repr(args)[:300], "behaviour": self.beh, "outcome": repr(out)[:200],
                                   "datagram": req.raw.hex() if req is not None else None,
                                   "state": {k: (v.hex() if isinstance(v, bytes) else v) for k, v in self.st.items()}})
        if out[0] == "exc" and driver.classify_exc(out[1]) == "panic":
            self.drv.close()
            self.drv = driver.Driver(self.cfg, self.agent, timeout=self.timeout).create()
            self.opened = False


def gen_cfg(rng, knobs):
    ver = rng.choice(knobs.get("versions", ["v1", "v2c", "v3", "v3", "v3"]))
    cl = rng.choice(knobs.get("clients", ["sync", "async"]))
    if ver != "v3":
        comm = rng.choice(["public", "private", "", "c" * 200, "ünï", "x"])
        return rigp.Cfg(ver, community=comm, client=cl)
    auth = rng.choice(knobs.get("auths", [None, "md5", "sha1", "md5", "sha1"]))
    priv = rng.choice(knobs.get("privs", [None, "des", "aes"])) if auth else None
    user = rng.choice(["u", "user10", "a" * 32, "n" * rng.choice([0, 1, 64, 127, 128, 200]), "\x00" * rng.choice([12, 13, 31]) + "z", "\x00" * 12])
    if user == "" and auth:
        user = "z"
    kt = knobs.get("key_types", ["password", "master", "localized"])
    eg = rng.choice(knobs.get("engine_given", [False, True]))
    akt, pkt = rng.choice(kt), rng.choice(kt)
    if not eg:
        # a localized key must be computed for the engine id, which is not known before discovery;
        # the test knows the agent's engine id, so localized keys are still legitimate
        pass
    pw = bytes(rng.randrange(33, 127) for _ in range(rng.choice([8, 9, 12, 31])))
    pw2 = bytes(rng.randrange(33, 127) for _ in range(rng.choice([8, 10, 16])))
    if knobs.get("shared_pw"):
        # every session of this process uses the same pass phrases (with whatever digest it draws):
        # a key derived for one digest must never be reused for another
        pw, pw2 = knobs["shared_pw"].encode(), (knobs["shared_pw"] + "P").encode()
    if auth and priv and rng.random() < knobs.get("same_octets", 0.1):
        # the same secret for authentication and privacy (common practice), also across key types: the
        # octets handed over as a privacy *password* equal the octets handed over as the auth *master key*.
        # Each key must still be derived from its own octets under its own key type.
        if pkt == "password" and akt == "master" and rng.random() < 0.7:
            pw2 = C.password_to_key(C.MD5 if auth == "md5" else C.SHA1, pw)
        else:
            pw2 = pw
        if rng.random() < 0.5:
            # raw mode: one octet string of the digest's size handed over as both secrets, each under its own key type
            x = bytes(rng.randrange(33, 127) for _ in range(16 if auth == "md5" else 20))
            return rigp.Cfg("v3", user=user, auth=auth, priv=priv, auth_kt=akt, priv_kt=pkt, auth_pw=pw, priv_pw=pw2, engine_given=eg,
                            client=cl, empty_engine=(not eg and rng.random() < 0.3), auth_raw=x, priv_raw=x)
    return rigp.Cfg("v3", user=user, auth=auth, priv=priv, auth_kt=akt, priv_kt=pkt, auth_pw=pw, priv_pw=pw2,
                    engine_given=eg, client=cl, empty_engine=(not eg and rng.random() < 0.3))


def worker(job):
    import gufo.snmp  # noqa: F401
    prog = runner.Progress(job.get("_progress"))
    rng = random.Random(job["seed"])
    knobs = job.get("knobs", {})
    aspects = set(job.get("aspects") or [])
    res = {"calls": 0, "requests": 0, "ops": {}, "bad": [], "geom": set(), "sizes": set(), "other_aspects": {}, "harness": [],
           "cfgs": [], "inconclusive": [], "samples": []}
    nsess = knobs.get("sessions", 4)
    sessions = []
    shared_users = {}
    key_objects = {}   # pass-phrase key objects reused between different User objects (odd job seeds)
    preset = job.get("cfgs")   # explicit configurations (a systematic matrix) instead of drawn ones
    for i in range(len(preset) if preset else nsess):
        rel = None
        if preset:
            d = dict(preset[i])
            rel = d.pop("_priv_octets", None)
            cfg = rigp.Cfg.from_json(d)
        else:
            cfg = gen_cfg(rng, knobs)
        if not preset and res["cfgs"] and cfg.version == "v3" and rng.random() < knobs.get("clone_cfg_prob", 0.25):
            # the same credentials (and, below, the very same User object) used against another agent
            prev = [s.cfg for s in sessions if s.cfg.version == "v3" and s.cfg.auth_kt != "localized" and s.cfg.priv_kt != "localized"]
            if prev:
                d = rng.choice(prev).to_json()
                d["client"], d["engine_given"] = cfg.client, rng.random() < 0.3
                d["empty_engine"] = False
                cfg = rigp.Cfg.from_json(d)
        # make_user for localized keys needs the engine id -> Sess creates agent first
        s = Sess(i, cfg, random.Random(rng.random()), knobs)
        if rel == "auth":
            # the octets handed over for the privacy key are exactly the octets handed over for the auth key
            # (whatever its key type): each must still be derived under its own key type
            a = cfg.auth_alg()
            mk = C.password_to_key(a, cfg.auth_pw)
            cfg.priv_pw = {"password": cfg.auth_pw, "master": mk, "localized": C.localize(a, mk, s.engine_id)}[cfg.auth_kt]
            uk = cfg.user_keys()
            s.agent.users = {uk.name: uk}
        try:
            if cfg.version == "v3" and cfg.auth_kt != "localized" and cfg.priv_kt != "localized":
                key = repr(sorted((k, v) for k, v in cfg.to_json().items() if k in ("user", "auth", "priv", "auth_kt", "priv_kt", "auth_pw", "priv_pw", "auth_raw", "priv_raw")))
                if key not in shared_users:
                    shared_users[key] = rigp.make_user(cfg, s.engine_id, key_cache=key_objects if knobs.get("share_key_objects", job["seed"] % 2) else None)
                s.user_obj = shared_users[key]
            s.start()
        except BaseException as e:  # a valid configuration must be accepted
            info = rigp.exc_info(e)
            res["bad"].append({"aspect": "create", "msg": "creating the session for a valid configuration raised %s: %s" % (info["cls"], info["msg"][:160]),
                               "cfgkey": cfg.key(), "cfg": cfg.to_json(), "op": "create", "args": "", "behaviour": "", "outcome": info["cls"],
                               "datagram": None, "state": {}})
            try:
                s.agent.stop()
            except Exception:
                pass
            continue
        sessions.append(s)
        res["cfgs"].append(cfg.key())
    nthreads = knobs.get("threads", 0)
    if nthreads:
        def run(s, n):
            for _ in range(n):
                s.step(res, aspects)
                if getattr(s, "desync", False):
                    break
        ths = [threading.Thread(target=run, args=(s, job["steps"] // len(sessions))) for s in sessions if s.cfg.client == "sync"]
        for t in ths:
            t.start()
        for t in ths:
            t.join()
    else:
        for i in range(job["steps"] if sessions else 0):
            s = sessions[i % len(sessions)] if job.get("round_robin") else rng.choice(sessions)
            prog.mark({"i": i, "cfg": s.cfg.key()})
            s.step(res, aspects)
            if getattr(s, "desync", False):
                k = sessions.index(s)
                s.stop()
                sessions[k] = Sess(s.idx, s.cfg, random.Random(rng.random()), knobs)
                sessions[k].start()
    for s in sessions:
        if s.agent.errors:
            res["harness"].append(s.agent.errors[0][-600:])
        s.stop()
    res["geom"] = sorted(res["geom"], key=repr)
    res["sizes"] = sorted(res["sizes"])
    return res
