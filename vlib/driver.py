"""Uniform driver over the real sync and async SnmpSession classes.

Every call is recorded at the client boundary as (op, args) -> outcome, where
outcome is ("ok", value) or ("exc", exc_info dict)."""
import asyncio
import time

from . import rigp


class Driver:
    def __init__(self, cfg, agent, timeout=0.5, **kw):
        self.cfg, self.agent, self.timeout = cfg, agent, timeout
        self.is_async = cfg.client == "async"
        self.loop = asyncio.new_event_loop() if self.is_async else None
        self.kw = kw
        self.s = None
        self.history = []
        self.partial = []

    def _run(self, coro):
        return self.loop.run_until_complete(coro)

    def create(self):
        if self.is_async:
            async def mk():
                return rigp.make_session(self.cfg, self.agent, timeout=self.timeout, **self.kw)
            self.s = self._run(mk())
        else:
            self.s = rigp.make_session(self.cfg, self.agent, timeout=self.timeout, **self.kw)
        return self

    def close(self):
        self.s = None
        if self.loop:
            try:
                self.loop.close()
            except Exception:
                pass

    def call(self, op, *args, limit=1000):
        """Execute one API call; never raises."""
        t0 = time.perf_counter()
        try:
            v = self._do(op, args, limit)
            out = ("ok", v)
        except BaseException as e:  # includes PanicException (BaseException)
            if isinstance(e, (KeyboardInterrupt, SystemExit)):
                raise
            out = ("exc", rigp.exc_info(e))
        self.last_duration = time.perf_counter() - t0
        return out

    def _do(self, op, args, limit):
        s = self.s
        if self.is_async:
            return self._run(self._ado(op, args, limit))
        if op in ("open", "open_cancel"):
            s.__enter__()
            return None
        if op == "refresh":
            return s.refresh()
        if op == "get":
            return s.get(*args)
        if op == "get_many":
            return s.get_many(*args)
        if op == "get_many_gen":
            # the names handed over as a one-shot iterator (the signature says Iterable[str])
            return s.get_many(x for x in args[0])
        if op in ("getnext", "getbulk", "fetch"):
            it = getattr(s, op)(*args)
            out = self.partial = []   # what was yielded so far stays observable if the walk raises
            for x in it:
                out.append(x)
                if len(out) >= limit:
                    out.append("LIMIT")
                    break
            return out
        if op in ("getnext1", "getbulk1", "fetch1"):
            it = getattr(s, op[:-1])(*args)
            try:
                return ("item", next(it))
            except StopIteration:
                return ("stop",)
        if op.endswith("_mix"):
            # other calls on the SAME session while the walk is under way: after `mix_after` items a get(), and a whole
            # second walk (nested loop), then the first walk is resumed; self.mix_log keeps what the inner calls returned
            it = getattr(s, op[:-4])(*args)
            out = self.partial = []
            self.mix_log = []
            k = getattr(self, "mix_after", 1)
            for x in it:
                out.append(x)
                if len(out) == k:
                    for kind, a in getattr(self, "mix_ops", []):
                        try:
                            if kind == "get":
                                self.mix_log.append(("ok", s.get(a)))
                            else:
                                self.mix_log.append(("ok", list(getattr(s, kind)(a))))
                        except Exception as e:
                            self.mix_log.append(("exc", type(e).__name__))
                if len(out) >= limit:
                    out.append("LIMIT")
                    break
            return out
        if op.endswith("_parts"):
            # a caller that consumes ONE walk object in several loops (peek with next(), a for loop left with
            # break, then another for loop over the same object): legitimate use of an iterator
            it = getattr(s, op[:-6])(*args)
            out = self.partial = []
            for head in list(getattr(self, "part_sizes", None) or [1, 2]):
                n = 0
                if head == 0:
                    continue
                for x in it:
                    out.append(x)
                    n += 1
                    if n >= head:
                        break
                else:
                    return out
            for x in it:
                out.append(x)
                if len(out) >= limit:
                    out.append("LIMIT")
                    break
            return out
        if op.endswith("_retry"):
            # a caller that retries next() on the same iterator after a timeout
            it = getattr(s, op[:-6])(*args)
            out = self.partial = []
            retries = 0
            while True:
                try:
                    out.append(next(it))
                except StopIteration:
                    return out
                except TimeoutError:
                    retries += 1
                    if retries > 3:
                        raise
                if len(out) >= limit:
                    out.append("LIMIT")
                    return out
        raise ValueError(op)

    async def _ado(self, op, args, limit):
        s = self.s
        if op == "open":
            await s.__aenter__()
            return None
        if op == "open_cancel":
            # the caller's own, shorter deadline around the context entry: the pending discovery is *cancelled* from
            # outside (asyncio.CancelledError is a BaseException), not timed out by the session
            import asyncio
            await asyncio.wait_for(s.__aenter__(), 0.05)
            return None
        if op == "refresh":
            return await s.refresh()
        if op == "get":
            return await s.get(*args)
        if op == "get_many":
            return await s.get_many(*args)
        if op == "get_many_gen":
            return await s.get_many(x for x in args[0])
        if op in ("getnext", "getbulk", "fetch"):
            out = self.partial = []
            async for x in getattr(s, op)(*args):
                out.append(x)
                if len(out) >= limit:
                    out.append("LIMIT")
                    break
            return out
        if op in ("getnext1", "getbulk1", "fetch1"):
            it = getattr(s, op[:-1])(*args)
            try:
                return ("item", await it.__anext__())
            except StopAsyncIteration:
                return ("stop",)
        if op.endswith("_mix"):
            it = getattr(s, op[:-4])(*args)
            out = self.partial = []
            self.mix_log = []
            k = getattr(self, "mix_after", 1)
            async for x in it:
                out.append(x)
                if len(out) == k:
                    for kind, a in getattr(self, "mix_ops", []):
                        try:
                            if kind == "get":
                                self.mix_log.append(("ok", await s.get(a)))
                            else:
                                self.mix_log.append(("ok", [y async for y in getattr(s, kind)(a)]))
                        except Exception as e:
                            self.mix_log.append(("exc", type(e).__name__))
                if len(out) >= limit:
                    out.append("LIMIT")
                    break
            return out
        if op.endswith("_parts"):
            it = getattr(s, op[:-6])(*args)
            out = self.partial = []
            for head in list(getattr(self, "part_sizes", None) or [1, 2]):
                n = 0
                if head == 0:
                    continue
                done = True
                async for x in it:
                    out.append(x)
                    n += 1
                    if n >= head:
                        done = False
                        break
                if done:
                    return out
            async for x in it:
                out.append(x)
                if len(out) >= limit:
                    out.append("LIMIT")
                    break
            return out
        if op.endswith("_retry"):
            it = getattr(s, op[:-6])(*args)
            out = self.partial = []
            retries = 0
            while True:
                try:
                    out.append(await it.__anext__())
                except StopAsyncIteration:
                    return out
                except TimeoutError:
                    retries += 1
                    if retries > 3:
                        raise
                if len(out) >= limit:
                    out.append("LIMIT")
                    return out
        raise ValueError(op)


ALLOWED_EXC = {"PySnmpError", "PySnmpEncodeError", "PySnmpDecodeError", "PySnmpAuthError", "PyNoSuchInstance", "SnmpError", "SnmpEncodeError", "SnmpDecodeError", "SnmpAuthError", "NoSuchInstance",
               "TimeoutError", "BlockingIOError", "OSError", "ValueError", "StopIteration", "StopAsyncIteration",
               "ConnectionRefusedError"}


def classify_exc(info, op=None):
    """-> 'documented' | 'documented-elsewhere' | 'panic' | 'undocumented'.
    RuntimeError is documented for get_many only ("On Python runtime failure")."""
    mro = info["mro"]
    if "PanicException" in mro or not info["is_exception"]:
        return "panic"
    if any(c in ALLOWED_EXC for c in mro):
        return "documented"
    if "RuntimeError" in mro or "NotImplementedError" in mro:
        return "documented-elsewhere" if op in (None, "get_many") else "undocumented"
    return "undocumented"
