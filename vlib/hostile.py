"""Hostile reply specifications for C01 (and reused by C16): replies that pass
the outer checks (community / user / engine id / msgID / request-id, correctly
MACed and encrypted) so the deep decoding and conversion layers run.

A spec is a JSON-able dict; realize(agent, req, spec) builds the datagram for
the request actually seen on the wire."""
from . import ber_ref as B

OID = (1, 3, 6, 1, 2, 1, 1, 3, 0)
SUB = (1, 3, 6, 1, 2, 1, 1, 3, 0, 1)
ALPHA = [0x00, 0x01, 0x02, 0x04, 0x05, 0x06, 0x09, 0x0d, 0x1f, 0x30, 0x40, 0x46, 0x7f, 0x80, 0x81, 0x82, 0x84,
         0xa2, 0xa8, 0xff]


def _vb(o, v):
    return B.enc_varbind(o, v)


def varbind_specs():
    """Lists of varbind TLVs (hex) exercising the typed decoders and the op layer."""
    out = []

    def add(label, vbs):
        out.append({"t": "vbs", "label": label, "vbs": [x.hex() for x in vbs]})

    exc = [b"\x80\x00", b"\x81\x00", b"\x82\x00", b"\x05\x00"]
    good = _vb(SUB, B.enc_int(5))
    add("empty-vbl", [])
    add("empty-varbind", [B.enc_seq([])])
    add("varbind-novalue", [B.enc_seq([B.enc_oid(SUB)])])
    add("varbind-extra", [B.enc_seq([B.enc_oid(SUB), B.enc_int(1), B.enc_int(2)])])
    add("varbind-not-seq", [B.enc_int(1)])
    # exception values at every position of 1..3 varbinds
    for n in (1, 2, 3):
        for pos in range(n):
            for e in exc:
                vbs = [good] * n
                vbs = list(vbs)
                vbs[pos] = _vb(SUB, e)
                add("exc-%d-%d-%02x" % (n, pos, e[0]), vbs)
    for e in (b"\x80\x01\x00", b"\x81\x02\x00\x00", b"\x82\x01\xff", b"\x83\x00", b"\x9f\x00", b"\xa0\x00", b"\xa2\x02\x05\x00"):
        add("ctx-odd-%s" % e.hex(), [_vb(SUB, e)])
    # zero-length OIDs, odd OIDs
    for oc in (b"", b"\x80", b"\xff", b"\x2b\x80", b"\x2b\x86", b"\x78", b"\xff\xff\xff\xff\x7f", b"\x2b" + b"\x8f" * 10 + b"\x7f"):
        add("oidname-%s" % oc.hex(), [B.enc_seq([B.tlv(B.OID, oc), B.enc_int(1)])])
        add("oidvalue-%s" % oc.hex(), [_vb(SUB, B.tlv(B.OID, oc))])
        add("oidname2-%s" % oc.hex(), [good, B.enc_seq([B.tlv(B.OID, oc), B.enc_int(1)])])
    # relative OIDs against short / empty / long bases
    bases = [b"", b"\x2b", b"\x2b\x06", b"\x2b\x06\x01\x02\x01\x01\x03\x00", b"\x2b\x87\x67"]
    rels = [b"", b"\x05", b"\x01\x03", b"\x07\x28", b"\xff\xff", b"\x80", b"\x87\x67", b"\x01\x03\x06\x01\x02\x01\x01\x03\x00\x01",
            b"\x06\x28\x01", b"\x02\x64", b"\xff", b"\xff\xff\xff\xff\xff\x7f", b"\x05\x90\x80\x80\x80\x00", b"\x8f\xff\xff\xff\x7f",
            b"\xff" * 9 + b"\x7f"]
    for bs in bases:
        for rl in rels:
            add("rel-%s-%s" % (bs.hex() or "e", rl.hex() or "e"),
                [B.enc_seq([B.tlv(B.OID, bs), B.enc_int(1)]), B.enc_seq([B.tlv(B.RELOID, rl), B.enc_int(2)])])
    add("rel-first", [B.enc_seq([B.tlv(B.RELOID, b"\x01\x03"), B.enc_int(2)])])
    add("rel-chain", [good] + [B.enc_seq([B.tlv(B.RELOID, bytes([k])), B.enc_int(k)]) for k in range(1, 6)])
    # many varbinds
    for n in (0, 1, 2, 10, 50):
        add("n-%d" % n, [_vb(SUB + (k,), B.enc_int(k)) for k in range(n)])
    # INTEGER widths
    for n in range(0, 13):
        for first in (0x00, 0x7f, 0x80, 0xff):
            if n == 0 and first:
                continue
            c = bytes([first] + [0xff] * (n - 1)) if n else b""
            add("int-%d-%02x" % (n, first), [_vb(SUB, B.tlv(B.INT, c))])
    # unsigned types, widths 0..10
    for tag in (B.COUNTER32, B.GAUGE32, B.TIMETICKS, B.UINTEGER32, B.COUNTER64):
        for n in (0, 1, 4, 5, 6, 8, 9, 10):
            add("u-%02x-%d" % (tag, n), [_vb(SUB, B.tlv(tag, b"\xff" * n))])
    # REAL: every first octet with 0..3 following octets; decimal junk
    for f in range(256):
        for rest in (b"", b"\x01", b"\x01\x02", b"\x00\x00\x01", b"\x31\x32\x33", b"\xff\xff\xff\xff\xff\xff\xff\xff\xff"):
            add("real-%02x-%s" % (f, rest.hex() or "e"), [_vb(SUB, B.tlv(B.REAL, bytes([f]) + rest))])
    for txt in (b"", b" ", b"-", b"+", b".", b"e", b"1e", b"1e999999999", b"-1e-999999999", b"\xff\xfe", b"1" * 400, b"inf", b"nan", b"0x10", b"1_0", b" 12", b"12 ", b"1,5"):
        for nr in (1, 2, 3):
            add("realtxt-%d-%s" % (nr, txt.hex()[:16]), [_vb(SUB, B.tlv(B.REAL, bytes([nr]) + txt))])
    # BOOL / NULL / IpAddress lengths
    for n in range(0, 4):
        add("bool-%d" % n, [_vb(SUB, B.tlv(B.BOOL, b"\x01" * n))])
        add("null-%d" % n, [_vb(SUB, B.tlv(B.NULL, b"\x00" * n))])
    for n in range(0, 8):
        add("ip-%d" % n, [_vb(SUB, B.tlv(B.IPADDR, bytes(range(n))))])
    # strings: invalid UTF-8, long
    for tag in (B.OCTETS, B.OPAQUE, B.ODESC):
        for c in (b"", b"\xff\xfe\x00", b"a" * 200, b"\x00" * 1200):
            add("str-%02x-%d" % (tag, len(c)), [_vb(SUB, B.tlv(tag, c))])
    # string contents that are BER themselves (what Opaque is for; net-snmp's 9f 78 float / 9f 79 double / 9f 7a int64 /
    # 9f 7b uint64 wrappers, nested Opaque, SEQUENCE): complete, and cut short at every length
    for head, n in ((b"\x9f\x78", 4), (b"\x9f\x79", 8), (b"\x9f\x7a", 8), (b"\x9f\x7b", 8), (b"\x44", 6), (b"\x30", 4), (b"\x02", 4),
                    (b"\x9f\x78", 8), (b"\x9f\x79", 4)):
        full = head + bytes([n]) + bytes(range(0x41, 0x41 + n))
        for cut in range(0, len(full) + 1):
            for tag in (B.OPAQUE, B.OCTETS):
                add("wrapped-%02x-%s-%d" % (tag, head.hex(), cut), [_vb(SUB, B.tlv(tag, full[:cut]))])
        add("wrapped-long-%s" % head.hex(), [_vb(SUB, B.tlv(B.OPAQUE, full + b"\x00" * 5))])
        add("wrapped-lie-%s" % head.hex(), [_vb(SUB, B.tlv(B.OPAQUE, head + bytes([n + 3]) + bytes(n)))])
    # unknown / constructed / high tags as values
    for tag in (0x00, 0x03, 0x08, 0x0a, 0x0c, 0x0d, 0x10, 0x13, 0x1e, 0x24, 0x29, 0x30, 0x31, 0x45, 0x48, 0x5e, 0x60, 0x7e, 0xc0, 0xe0, 0xfe):
        add("tag-%02x" % tag, [_vb(SUB, B.tlv(tag, b"\x01"))])
    for raw in (b"\x1f\x02\x01\x00", b"\x5f\x81\x00\x00", b"\x1f\x80\x80\x80\x01\x00", b"\xbf\x7f\x00"):
        add("hightag-%s" % raw.hex(), [B.enc_seq([B.enc_oid(SUB), raw])])
    # long-form / odd lengths on the value
    for form in (1, 2, 3, 4):
        add("lform-%d" % form, [_vb(SUB, B.enc_int(5, form=form))])
    for raw in (b"\x02\x80\x01\x00\x00", b"\x02\x85\x00\x00\x00\x00\x01\x07", b"\x02\x88" + b"\x00" * 7 + b"\x01\x07",
                b"\x04\x84\xff\xff\xff\xff", b"\x04\x89" + b"\xff" * 9, b"\x02\xff"):
        add("oddlen-%s" % raw.hex()[:12], [B.enc_seq([B.enc_oid(SUB), raw])])
    return out


def pdu_specs():
    out = []
    for tag in (0xA0, 0xA1, 0xA3, 0xA4, 0xA5, 0xA6, 0xA7, 0xA8, 0xA9, 0xAF, 0x30, 0xBF, 0x82, 0x22):
        for vbs in ([], [_vb(SUB, B.enc_int(1))], [_vb(SUB, B.enc_null())]):
            out.append({"t": "pdu", "label": "pdu-%02x-%d" % (tag, len(vbs)), "tag": tag, "vbs": [x.hex() for x in vbs], "es": 0, "ei": 0})
    for es, ei in ((1, 1), (2, 1), (5, 0), (18, 2), (2 ** 31 - 1, 2 ** 31 - 1), (-1, -1), (2 ** 40, 0)):
        out.append({"t": "pdu", "label": "err-%d-%d" % (es, ei), "tag": 0xA2, "vbs": [_vb(OID, B.enc_null()).hex()], "es": es, "ei": ei})
    # request-id widths: same value, padded encodings
    for pad in (1, 2, 4, 5):
        out.append({"t": "ridpad", "label": "ridpad-%d" % pad, "pad": pad})
    return out


def mutant_specs(n_pdu=120, n_msg=160):
    """Mutations of the valid reply: of the PDU bytes (re-wrapped with correct
    outer lengths, MAC and encryption) and of the whole datagram."""
    out = []
    for n in range(0, n_pdu):
        out.append({"t": "mut", "label": "pdu-trunc-%d" % n, "where": "pdu", "op": "trunc", "i": n})
    for i in range(0, n_pdu):
        for v in ALPHA:
            out.append({"t": "mut", "label": "pdu-set-%d-%02x" % (i, v), "where": "pdu", "op": "set", "i": i, "v": v})
        out.append({"t": "mut", "label": "pdu-del-%d" % i, "where": "pdu", "op": "del", "i": i})
        out.append({"t": "mut", "label": "pdu-inc-%d" % i, "where": "pdu", "op": "inc", "i": i})
        out.append({"t": "mut", "label": "pdu-dec-%d" % i, "where": "pdu", "op": "dec", "i": i})
    for n in range(0, n_msg, 1):
        out.append({"t": "mut", "label": "msg-trunc-%d" % n, "where": "msg", "op": "trunc", "i": n})
    for i in range(0, n_msg):
        for v in (0x00, 0x80, 0x81, 0x84, 0xff, 0x30, 0x04, 0x1f):
            out.append({"t": "mut", "label": "msg-set-%d-%02x" % (i, v), "where": "msg", "op": "set", "i": i, "v": v})
        out.append({"t": "mut", "label": "msg-inc-%d" % i, "where": "msg", "op": "inc", "i": i})
        out.append({"t": "mut", "label": "msg-dec-%d" % i, "where": "msg", "op": "dec", "i": i})
    return out


def v3_specs():
    out = []
    for n in range(0, 18):
        out.append({"t": "v3", "label": "salt-%d" % n, "salt_len": n})
    for n in (0, 1, 7, 9, 15, 17, 23, 100, 1001):
        out.append({"t": "v3", "label": "enclen-%d" % n, "enc_len": n})
    for fl in (b"", b"\x00\x00", b"\xff", b"\x07", b"\x03", b"\x02"):
        out.append({"t": "v3", "label": "flags-%s" % (fl.hex() or "e"), "flags_raw": fl.hex()})
    for n in (0, 1, 11, 13, 24, 200):
        out.append({"t": "v3", "label": "authlen-%d" % n, "auth_len": n})
    for sm in (0, 1, 2, 4, 255, 256, 2 ** 31 - 1):
        out.append({"t": "v3", "label": "secmodel-%d" % sm, "sec_model": sm})
    out.append({"t": "v3", "label": "encrypted-garbage", "enc_garbage": True})
    # several large encrypted-looking datagrams inside ONE wait (they need not decrypt or match)
    for n, ln in ((3, 1400), (4, 1400), (6, 1000), (12, 400), (3, 3000)):
        out.append({"t": "v3", "label": "burst-%dx%d" % (n, ln), "burst": n, "enc_len": ln})
    out.append({"t": "v3", "label": "usm-trailing", "usm_trailing": True})
    out.append({"t": "v3", "label": "boots-big", "boots": 2 ** 40, "time": -5})
    return out


def apply_mut(b, spec):
    b = bytearray(b)
    i, op = spec["i"], spec["op"]
    if op == "trunc":
        return bytes(b[:i])
    if i >= len(b):
        return None
    if op == "set":
        if b[i] == spec["v"]:
            return None
        b[i] = spec["v"]
    elif op == "del":
        del b[i]
    elif op == "inc":
        b[i] = (b[i] + 1) & 0xFF
    elif op == "dec":
        b[i] = (b[i] - 1) & 0xFF
    return bytes(b)


def realize(agent, req, spec):
    """Build the hostile datagram for this request; None if not applicable."""
    t = spec["t"]
    if t == "raw":
        return bytes.fromhex(spec["hex"])
    if t == "vbs":
        return agent.reply(req, [bytes.fromhex(x) for x in spec["vbs"]])
    if t == "pdu":
        return agent.reply(req, [bytes.fromhex(x) for x in spec["vbs"]], pdu_tag=spec["tag"],
                           error_status=spec["es"], error_index=spec["ei"])
    if t == "ridpad":
        rid = req.request_id or 0
        pdu = B.tlv(0xA2, B.enc_int(rid, pad=spec["pad"]) + B.enc_int(0) + B.enc_int(0) +
                    B.enc_seq([_vb(SUB, B.enc_int(1))]))
        return agent.reply(req, pdu=pdu)
    if t == "mut":
        oid = (req.oids() or [OID])[0] + (1,)
        vbs = [_vb(oid, B.enc_int(12345)), _vb(oid + (2,), B.enc_octets(b"abcdef"))]
        if spec["where"] == "pdu":
            pdu = B.enc_pdu(0xA2, req.request_id or 0, 0, 0, vbs)
            m = apply_mut(pdu, spec)
            return None if m is None else agent.reply(req, pdu=m)
        return apply_mut(agent.reply(req, vbs), spec)
    if t == "v3":
        if req.version != 3:
            return None
        vbs = [_vb(SUB, B.enc_int(1))]
        if "burst" in spec:
            usm_in = req.m["usm"]
            out = []
            for k in range(spec["burst"]):
                data = B.enc_octets(bytes((11 * j + k) & 0xFF for j in range(spec["enc_len"] - spec["enc_len"] % 8)))
                usm = B.enc_usm(agent.engine_id, agent.boots, agent.time, usm_in["user"], bytes(12), bytes(range(8)))
                out.append(B.enc_msg_v3((req.m["msg_id"] + 1 + k) & 0x7FFFFFFF, 65507, 3, usm, data))
            return out
        if "salt_len" in spec or "enc_len" in spec or spec.get("enc_garbage"):
            # an encrypted-looking message with odd parameters
            usm_in = req.m["usm"]
            n = spec.get("enc_len", 48)
            data = B.enc_octets(bytes((7 * k + 1) & 0xFF for k in range(n)))
            salt = bytes(range(spec.get("salt_len", 8)))
            usm = B.enc_usm(agent.engine_id, agent.boots, agent.time, usm_in["user"], bytes(12), salt)
            return B.enc_msg_v3(req.m["msg_id"], 65507, 3, usm, data)
        if "flags_raw" in spec or "sec_model" in spec or "auth_len" in spec or spec.get("usm_trailing") or "boots" in spec:
            usm_in = req.m["usm"]
            scoped = B.enc_scoped(agent.engine_id, b"", B.enc_pdu(0xA2, req.request_id or 0, 0, 0, vbs))
            usm = B.enc_usm(agent.engine_id, spec.get("boots", agent.boots), spec.get("time", agent.time),
                            usm_in["user"], bytes(spec.get("auth_len", 0)), b"")
            if spec.get("usm_trailing"):
                usm += b"\x05\x00"
            fl = bytes.fromhex(spec["flags_raw"]) if "flags_raw" in spec else b"\x00"
            hdr = B.enc_seq([B.enc_int(req.m["msg_id"]), B.enc_int(65507), B.enc_octets(fl), B.enc_int(spec.get("sec_model", 3))])
            return B.enc_seq([B.enc_int(3), hdr, B.enc_octets(usm), scoped])
    return None


def all_specs(quick=True):
    s = varbind_specs() + pdu_specs() + v3_specs()
    s += mutant_specs(70, 90) if quick else mutant_specs(120, 200)
    return s
