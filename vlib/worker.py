"""Worker entry: python -m vlib.worker <module> <func> <jobfile> <outfile>."""
import importlib
import json
import sys
import traceback


def main():
    module, func, jf, of = sys.argv[1:5]
    job = json.load(open(jf))
    mod = importlib.import_module(module)
    try:
        res = getattr(mod, func)(job)
    except Exception:  # harness error inside the worker
        res = {"harness_error": traceback.format_exc()}
    with open(of, "w") as f:
        json.dump(res, f, default=lambda o: o.hex() if isinstance(o, (bytes, bytearray)) else repr(o))


if __name__ == "__main__":
    main()
