"""Independent BER/DER reference for SNMP messages (trusted base).

Written from X.690 / RFC 1157 / RFC 3416 / RFC 3412 / RFC 3414, without looking
at how gufo_snmp does it.  Encoder with knobs (long-form lengths, leading
zeros) to produce unusual-but-valid BER; *strict* decoder (definite, minimal
lengths; minimal INTEGERs; nothing trailing) to judge what the client emits.
"""
import struct

# ---- tags
INT, OCTETS, NULL, OID, ODESC, REAL, BOOL, RELOID = 0x02, 0x04, 0x05, 0x06, 0x07, 0x09, 0x01, 0x0D
SEQ = 0x30
IPADDR, COUNTER32, GAUGE32, TIMETICKS, OPAQUE, COUNTER64, UINTEGER32 = 0x40, 0x41, 0x42, 0x43, 0x44, 0x46, 0x47
NOSUCHOBJECT, NOSUCHINSTANCE, ENDOFMIBVIEW = 0x80, 0x81, 0x82
PDU_GET, PDU_GETNEXT, PDU_RESPONSE, PDU_SET, PDU_TRAP, PDU_GETBULK, PDU_INFORM, PDU_TRAP2, PDU_REPORT = (
    0xA0, 0xA1, 0xA2, 0xA3, 0xA4, 0xA5, 0xA6, 0xA7, 0xA8)


class StrictError(Exception):
    pass


# ------------------------------------------------------------------ encoding
def enc_len(n, form=None):
    """form: None = DER minimal; k in 1..4 = long form with k octets."""
    if form is None:
        if n < 0x80:
            return bytes([n])
        k = (n.bit_length() + 7) // 8
        return bytes([0x80 | k]) + n.to_bytes(k, "big")
    return bytes([0x80 | form]) + n.to_bytes(form, "big")


def tlv(tag, content, form=None):
    return bytes([tag]) + enc_len(len(content), form) + bytes(content)


def int_content(v):
    """Minimal two's complement."""
    n = 1
    while not (-(1 << (8 * n - 1)) <= v < (1 << (8 * n - 1))):
        n += 1
    return v.to_bytes(n, "big", signed=True)


def enc_int(v, form=None, pad=0):
    c = int_content(v)
    if pad:
        c = (b"\xff" if v < 0 else b"\x00") * pad + c
    return tlv(INT, c, form)


def uint_content(v, leading_zero=None):
    """Unsigned application types: minimal two's complement of a non-negative
    value (leading 00 iff top bit set).  leading_zero=False strips it (as many
    agents do), True forces one."""
    c = v.to_bytes(max(1, (v.bit_length() + 7) // 8), "big")
    if leading_zero is None:
        leading_zero = bool(c[0] & 0x80)
    return (b"\x00" + c) if leading_zero else c


def enc_uint(tag, v, form=None, leading_zero=None):
    return tlv(tag, uint_content(v, leading_zero), form)


def arc_b128(a):
    out = [a & 0x7F]
    a >>= 7
    while a:
        out.append(0x80 | (a & 0x7F))
        a >>= 7
    return bytes(reversed(out))


def oid_content(arcs):
    assert len(arcs) >= 2
    first = arcs[0] * 40 + arcs[1]
    return arc_b128(first) + b"".join(arc_b128(a) for a in arcs[2:])


def enc_oid(arcs, form=None):
    return tlv(OID, oid_content(arcs), form)


def enc_octets(b, form=None, tag=OCTETS):
    return tlv(tag, b, form)


def enc_null():
    return b"\x05\x00"


def enc_seq(items, form=None, tag=SEQ):
    return tlv(tag, b"".join(items), form)


def parse_oid_text(s):
    return tuple(int(x) for x in s.split("."))


def oid_text(arcs):
    return ".".join(str(a) for a in arcs)


def enc_varbind(oid_arcs, value_tlv, form=None):
    return enc_seq([enc_oid(oid_arcs), value_tlv], form)


def enc_pdu(tag, request_id, a, b, varbinds, form=None, vb_form=None):
    """varbinds: list of already-encoded varbind TLVs."""
    return tlv(tag, enc_int(request_id) + enc_int(a) + enc_int(b) + enc_seq(varbinds, vb_form), form)


def enc_msg_c(version, community, pdu, form=None):
    return enc_seq([enc_int(version), enc_octets(community), pdu], form)


def enc_usm(engine_id, boots, time, user, auth_params, priv_params):
    return enc_seq([enc_octets(engine_id), enc_int(boots), enc_int(time), enc_octets(user),
                    enc_octets(auth_params), enc_octets(priv_params)])


def enc_scoped(ctx_engine_id, ctx_name, pdu):
    return enc_seq([enc_octets(ctx_engine_id), enc_octets(ctx_name), pdu])


def enc_msg_v3(msg_id, max_size, flags, usm, data, sec_model=3, form=None):
    """data: encoded scopedPDU (plaintext) or OCTET STRING TLV (encrypted)."""
    hdr = enc_seq([enc_int(msg_id), enc_int(max_size), enc_octets(bytes([flags])), enc_int(sec_model)])
    return enc_seq([enc_int(3), hdr, enc_octets(usm), data], form)


# ------------------------------------------------------------------ strict decoding
def read_tlv(d, off=0, strict=True):
    """Return (tag_octet, content_start, content_end). Single-octet tags only."""
    if off + 2 > len(d):
        raise StrictError("truncated header")
    tag = d[off]
    if tag & 0x1F == 0x1F:
        raise StrictError("high tag number")
    l0 = d[off + 1]
    if l0 < 0x80:
        ln, h = l0, 2
    else:
        k = l0 & 0x7F
        if k == 0:
            raise StrictError("indefinite length")
        if off + 2 + k > len(d):
            raise StrictError("truncated length")
        ln = int.from_bytes(d[off + 2:off + 2 + k], "big")
        if strict and (d[off + 2] == 0 or ln < 0x80):
            raise StrictError("non-minimal length")
        h = 2 + k
    s = off + h
    if s + ln > len(d):
        raise StrictError("content runs past end")
    return tag, s, s + ln


def dec_int_content(c, strict=True):
    if len(c) == 0:
        raise StrictError("empty INTEGER")
    if strict and len(c) > 1 and ((c[0] == 0 and not c[1] & 0x80) or (c[0] == 0xFF and c[1] & 0x80)):
        raise StrictError("non-minimal INTEGER")
    return int.from_bytes(c, "big", signed=True)


def dec_oid_content(c, strict=True):
    if len(c) == 0:
        raise StrictError("empty OID")
    subs, v, started = [], 0, False
    for b in c:
        if not started and b == 0x80 and strict:
            raise StrictError("non-minimal sub-identifier")
        started = True
        v = (v << 7) | (b & 0x7F)
        if not b & 0x80:
            subs.append(v)
            v, started = 0, False
    if started:
        raise StrictError("truncated sub-identifier")
    f = subs[0]
    if f < 40:
        a0, a1 = 0, f
    elif f < 80:
        a0, a1 = 1, f - 40
    else:
        a0, a1 = 2, f - 80
    return (a0, a1) + tuple(subs[1:])


class R:
    """Sequential strict reader over a content region."""

    def __init__(self, d, s=0, e=None, strict=True):
        self.d, self.p, self.e, self.strict = d, s, len(d) if e is None else e, strict

    def done(self):
        return self.p >= self.e

    def next(self, want=None):
        if self.p >= self.e:
            raise StrictError("missing element")
        tag, s, e = read_tlv(self.d[:self.e], self.p, self.strict)
        if want is not None and tag != want:
            raise StrictError("tag %#x, wanted %#x" % (tag, want))
        self.p = e
        return tag, s, e

    def int(self):
        _, s, e = self.next(INT)
        return dec_int_content(self.d[s:e], self.strict)

    def octets(self):
        _, s, e = self.next(OCTETS)
        return bytes(self.d[s:e])

    def sub(self, want=SEQ):
        tag, s, e = self.next(want)
        return R(self.d, s, e, self.strict)

    def end(self):
        if self.p != self.e:
            raise StrictError("trailing octets inside element")


def dec_value(tag, c, strict=True):
    """Decode a varbind value to a ('kind', python value) pair."""
    if tag == INT:
        return ("Int", dec_int_content(c, strict))
    if tag == OCTETS:
        return ("OctetString", bytes(c))
    if tag == NULL:
        if len(c):
            raise StrictError("NULL with content")
        return ("Null", None)
    if tag == OID:
        return ("Oid", dec_oid_content(c, strict))
    if tag in (COUNTER32, GAUGE32, TIMETICKS, UINTEGER32, COUNTER64):
        v = dec_int_content(c, strict)
        if v < 0:
            raise StrictError("negative unsigned")
        return ({COUNTER32: "Counter32", GAUGE32: "Gauge32", TIMETICKS: "TimeTicks",
                 UINTEGER32: "UInteger32", COUNTER64: "Counter64"}[tag], v)
    if tag == IPADDR:
        if len(c) != 4:
            raise StrictError("IpAddress length")
        return ("IpAddress", ".".join(str(b) for b in c))
    if tag == OPAQUE:
        return ("Opaque", bytes(c))
    if tag in (NOSUCHOBJECT, NOSUCHINSTANCE, ENDOFMIBVIEW):
        if len(c):
            raise StrictError("exception value with content")
        return ({NOSUCHOBJECT: "NoSuchObject", NOSUCHINSTANCE: "NoSuchInstance",
                 ENDOFMIBVIEW: "EndOfMibView"}[tag], None)
    raise StrictError("unsupported value tag %#x" % tag)


def dec_pdu(r):
    """r: reader positioned at a PDU TLV. Returns dict."""
    tag, s, e = r.next()
    if tag not in (PDU_GET, PDU_GETNEXT, PDU_RESPONSE, PDU_GETBULK, PDU_REPORT, PDU_SET, PDU_INFORM, PDU_TRAP2):
        raise StrictError("unknown PDU tag %#x" % tag)
    b = R(r.d, s, e, r.strict)
    rid, a, bb = b.int(), b.int(), b.int()
    vbs = b.sub()
    b.end()
    out = []
    while not vbs.done():
        vb = vbs.sub()
        _, os_, oe = vb.next(OID)
        oid = dec_oid_content(vb.d[os_:oe], vb.strict)
        vt, vs, ve = vb.next()
        vb.end()
        out.append((oid, dec_value(vt, vb.d[vs:ve], vb.strict), bytes(vb.d[os_:oe])))
    return {"tag": tag, "request_id": rid, "a": a, "b": bb, "varbinds": out}


def dec_scoped(d, strict=True, allow_trailing=False):
    """Decode a scopedPDU from bytes; returns (dict, octets consumed)."""
    r = R(d, 0, None, strict)
    tag, s, e = r.next(SEQ)
    b = R(d, s, e, strict)
    ctx_engine, ctx_name = b.octets(), b.octets()
    pdu = dec_pdu(b)
    b.end()
    if not allow_trailing and e != len(d):
        raise StrictError("trailing octets after scopedPDU")
    return {"ctx_engine_id": ctx_engine, "ctx_name": ctx_name, "pdu": pdu}, e


def dec_message(d, strict=True):
    """Strict-decode a whole SNMP message (v1/v2c/v3). Returns dict.

    v3 dict keys: version, msg_id, max_size, flags, sec_model, usm{...},
    auth_params_off (offset of the 12 octets inside d, or None), and either
    'scoped' (plaintext) or 'enc' (ciphertext bytes).
    """
    d = bytes(d)
    r = R(d, 0, None, strict)
    top = r.sub()
    if r.p != len(d):
        raise StrictError("trailing octets after message")
    ver = top.int()
    if ver in (0, 1):
        comm = top.octets()
        pdu = dec_pdu(top)
        top.end()
        return {"version": ver, "community": comm, "pdu": pdu}
    if ver != 3:
        raise StrictError("version %d" % ver)
    h = top.sub()
    msg_id, max_size = h.int(), h.int()
    fl = h.octets()
    if len(fl) != 1:
        raise StrictError("msgFlags length")
    sec_model = h.int()
    h.end()
    _, us, ue = top.next(OCTETS)
    u = R(d, us, ue, strict)
    uu = u.sub()
    u.end()
    engine_id = uu.octets()
    boots, tm = uu.int(), uu.int()
    user = uu.octets()
    _, as_, ae = uu.next(OCTETS)
    priv_params = uu.octets()
    uu.end()
    out = {
        "version": 3, "msg_id": msg_id, "max_size": max_size, "flags": fl[0], "sec_model": sec_model,
        "usm": {"engine_id": engine_id, "boots": boots, "time": tm, "user": user,
                "auth_params": bytes(d[as_:ae]), "priv_params": priv_params},
        "auth_params_off": as_, "auth_params_len": ae - as_,
    }
    p0 = top.p
    tag, s, e = top.next()
    top.end()
    if tag == OCTETS:
        out["enc"] = bytes(d[s:e])
    elif tag == SEQ:
        sc, _ = dec_scoped(d[p0:e], strict)
        out["scoped"] = sc
    else:
        raise StrictError("msgData tag %#x" % tag)
    return out


# ------------------------------------------------------------------ REAL (X.690 8.5)
def real_special(kind):
    return {"+0": b"", "inf": b"\x40", "-inf": b"\x41", "nan": b"\x42", "-0": b"\x43"}[kind]


def real_decimal(nr, text):
    return bytes([nr]) + text.encode("ascii")


def real_binary(sign, base, f, exp, mantissa, exp_fmt=None):
    """8.5.7: first octet 1 S BB FF EE; value = S * N * 2^F * B^E.

    base in (2, 8, 16); exp_fmt: 0,1,2 -> 1,2,3 exponent octets; 3 -> length-prefixed.
    """
    bb = {2: 0, 8: 1, 16: 2}[base]
    ec = int_content(exp)
    if exp_fmt is None:
        exp_fmt = min(len(ec) - 1, 3)
    if exp_fmt < 3:
        n = exp_fmt + 1
        ecs = exp.to_bytes(n, "big", signed=True)
        eo = ecs
    else:
        eo = bytes([len(ec)]) + ec
    first = 0x80 | (0x40 if sign < 0 else 0) | (bb << 4) | ((f & 3) << 2) | (exp_fmt & 3)
    n = mantissa.to_bytes(max(1, (mantissa.bit_length() + 7) // 8), "big")
    return bytes([first]) + eo + n
