"""Check scaffolding: verdict discipline, evidence files, known findings,
worker orchestration (Python workers for Rig P, harness binaries for Rig R)."""
import json
import os
import subprocess
import sys
import tempfile
import time

from . import build

VERIF = build.VERIF
_ALT = os.path.realpath(build.REPO) != "/repo"
EVID = os.path.join(build.CACHE, "evidence") if _ALT else os.path.join(VERIF, "evidence")
REPLAYS = os.path.join(build.CACHE, "replays") if _ALT else os.path.join(VERIF, "replays")
KNOWN = os.path.join(VERIF, "known_findings.json")
NPROC = int(os.environ.get("VERIF_JOBS", "16"))


class HarnessError(Exception):
    """Infrastructure problem: exit 2, never a verdict."""


def load_known():
    if not os.path.exists(KNOWN):
        return []
    return json.load(open(KNOWN)).get("findings", [])


class Check:
    def __init__(self, pid, level, tier, seed):
        self.pid, self.level, self.tier, self.seed = pid, level, tier, int(seed)
        self.t0 = time.time()
        self.evaluations = 0
        self.distinct = set()
        self.samples = []
        self.rule = ""
        self.extra = {}            # extra coverage keys
        self.assumptions = []
        self.violations = []       # (signature, description, replay path)
        self.known_hits = {}       # signature -> count
        self.inconclusive = []
        self.notes = []
        self.known = [k for k in load_known() if k["property"] == pid]
        self._nrep = 0
        self.floors = []           # (name, got, want)

    # -- observation bookkeeping
    def seen(self, n=1, cls=None):
        self.evaluations += n
        if cls is not None:
            self.distinct.add(cls)

    def sample(self, s, limit=8):
        if len(self.samples) < limit:
            self.samples.append(s)

    def floor(self, name, got, want):
        self.floors.append((name, got, want))

    # -- verdicts
    def violation(self, signature, desc, replay=None):
        """signature: exact key compared against known_findings.json."""
        for k in self.known:
            if k["signature"] == signature:
                self.known_hits[signature] = self.known_hits.get(signature, 0) + 1
                return False
        if len(self.violations) >= 200:
            self.violations.append((signature, "(more suppressed)", None)) if len(self.violations) == 200 else None
            return True
        path = None
        os.makedirs(REPLAYS, exist_ok=True)
        self._nrep += 1
        path = os.path.join(REPLAYS, "%s-%s-%d-%d.json" % (self.pid, self.tier, self.seed, self._nrep))
        with open(path, "w") as f:
            json.dump({"property": self.pid, "signature": signature, "description": desc, "seed": self.seed,
                       "tier": self.tier, "case": replay}, f, indent=1, default=_jd)
        self.violations.append((signature, desc, path))
        return True

    def inconc(self, what):
        self.inconclusive.append(what)

    def finish(self):
        wall = time.time() - self.t0
        cov = {
            "evaluations": int(self.evaluations),
            "distinct_nontrivial": len(self.distinct),
            "rule": self.rule,
            "samples": self.samples or ["(none)"],
        }
        cov.update(self.extra)
        cov["inconclusive"] = self.inconclusive[:50]
        cov["known_findings_observed"] = self.known_hits
        cov["floors"] = [{"name": n, "observed": g, "required": w} for n, g, w in self.floors]
        ev = {
            "property_id": self.pid, "tier": self.tier, "seed": self.seed, "level": self.level,
            "coverage": cov, "assumptions": self.assumptions, "wall_s": round(wall, 2),
            "violations": len(self.violations),
            "violation_signatures": sorted({v[0] for v in self.violations})[:50],
            "notes": self.notes,
        }
        os.makedirs(EVID, exist_ok=True)
        with open(os.path.join(EVID, self.pid + ".json"), "w") as f:
            json.dump(ev, f, indent=1, default=_jd)
        print("[%s] tier=%s seed=%d evaluations=%d distinct=%d wall=%.1fs" % (
            self.pid, self.tier, self.seed, self.evaluations, len(self.distinct), wall))
        for k, v in self.extra.items():
            if isinstance(v, (int, float, str, bool)):
                print("    %s: %s" % (k, v))
        for i in self.inconclusive[:20]:
            print("INCONCLUSIVE: property=%s %s" % (self.pid, str(i)[:300].replace("\n", " | ")))
        for k in self.known:
            if k["signature"] in self.known_hits:
                print("KNOWN-FINDING: property=%s %s [%s] (observed %d times this run)" % (
                    self.pid, k["what"], k["signature"], self.known_hits[k["signature"]]))
            else:
                print("KNOWN-FINDING: property=%s %s [%s] (not exercised/observed this run)" % (
                    self.pid, k["what"], k["signature"]))
        if self.violations:
            seen = set()
            for sig, desc, path in self.violations:
                if sig in seen:
                    continue
                seen.add(sig)
                print("VIOLATION property=%s replay=%s" % (self.pid, path))
                print("    %s: %s" % (sig, desc[:400]))
            return 1
        bad = [(n, g, w) for n, g, w in self.floors if g < w]
        if bad:
            for n, g, w in bad:
                print("HARNESS-ERROR: coverage floor not met: %s observed=%s required=%s" % (n, g, w))
            return 2
        if self.evaluations == 0:
            print("HARNESS-ERROR: observed nothing")
            return 2
        return 0


def _jd(o):
    if isinstance(o, (bytes, bytearray)):
        return o.hex()
    if isinstance(o, (set, frozenset)):
        return sorted(o)
    if isinstance(o, tuple):
        return list(o)
    return repr(o)


# ---------------------------------------------------------------- Python workers (Rig P)
def run_workers(module, func, jobs, variant="rel", timeout=900, nproc=None):
    """Run module.func(job) in one fresh python process per job (<= nproc at a
    time). Returns list of dicts: {job, rc, result|None, progress, stderr}."""
    stage = build.stage_python(variant)
    env = build.python_env(variant, stage)
    nproc = nproc or NPROC
    tmp = tempfile.mkdtemp(prefix="w-", dir=os.path.join(build.CACHE, "stage"))
    build._stages.append(tmp)
    pend = list(enumerate(jobs))
    running, out = [], [None] * len(jobs)

    def launch(i, job):
        jf, of, pf = (os.path.join(tmp, "%d.%s" % (i, x)) for x in ("job", "out", "prog"))
        job = dict(job)
        job["_progress"] = pf
        job["_variant"] = variant
        with open(jf, "w") as f:
            json.dump(job, f, default=_jd)
        ef = open(os.path.join(tmp, "%d.err" % i), "w+")
        p = subprocess.Popen([build.REAL_PY, "-m", "vlib.worker", module, func, jf, of], env=env, cwd=VERIF,
                             stdout=ef, stderr=subprocess.STDOUT)
        return (i, job, p, of, pf, ef, time.time())

    while pend or running:
        while pend and len(running) < nproc:
            i, job = pend.pop(0)
            running.append(launch(i, job))
        still = []
        for r in running:
            i, job, p, of, pf, ef, t0 = r
            rc = p.poll()
            if rc is None and time.time() - t0 > timeout:
                p.kill()
                p.wait()
                rc = "timeout"
            if rc is None:
                still.append(r)
                continue
            ef.seek(0)
            err = ef.read()[-8000:]
            ef.close()
            res = None
            if os.path.exists(of):
                try:
                    res = json.load(open(of))
                except ValueError:
                    res = None
            prog = None
            if os.path.exists(pf):
                try:
                    prog = open(pf).read()[-4000:]
                except OSError:
                    pass
            out[i] = {"job": job, "rc": rc, "result": res, "progress": prog, "stderr": err}
        running = still
        if running:
            time.sleep(0.02)
    return out


class Progress:
    """Worker side: flushed breadcrumb so a dying worker names its last case."""

    def __init__(self, path):
        self.fd = os.open(path, os.O_WRONLY | os.O_CREAT | os.O_TRUNC) if path else None

    def mark(self, obj):
        if self.fd is None:
            return
        b = (json.dumps(obj, default=_jd) + "\n").encode()
        os.lseek(self.fd, 0, 0)
        os.ftruncate(self.fd, 0)
        os.write(self.fd, b)


# ---------------------------------------------------------------- Rust harness (Rig R)
def run_bin(variant, name, args, stdin=None, timeout=900, env_extra=None):
    """Run a harness binary natively (rel/dbg/asan). Returns CompletedProcess."""
    b = build.build(variant)
    env = dict(os.environ)
    if variant == "asan":
        env["ASAN_OPTIONS"] = "detect_leaks=0:abort_on_error=0:halt_on_error=1:exitcode=66"
        env["ASAN_SYMBOLIZER_PATH"] = "/usr/lib/llvm-14/bin/llvm-symbolizer"
    if env_extra:
        env.update(env_extra)
    return subprocess.run([os.path.join(b["bindir"], name)] + [str(a) for a in args], input=stdin,
                          stdout=subprocess.PIPE, stderr=subprocess.PIPE, timeout=timeout, env=env)


def run_miri(name, args, stdin=None, timeout=1800, seed=None):
    cmd, env, cwd = build.miri_cmd(name, [str(a) for a in args], seed)
    return subprocess.run(cmd, input=stdin, stdout=subprocess.PIPE, stderr=subprocess.PIPE, timeout=timeout,
                          env=env, cwd=cwd)


def ldrive(variant, lines, timeout=900):
    """Feed command lines to the line driver; returns list of result lines (split on tab)."""
    data = ("\n".join(lines) + "\n").encode()
    if variant == "miri":
        p = run_miri("ldrive", [], stdin=data, timeout=timeout)
    else:
        p = run_bin(variant, "ldrive", [], stdin=data, timeout=timeout)
    outl = p.stdout.decode(errors="replace").split("\n")
    if outl and outl[-1] == "":
        outl.pop()
    return p, [l.split("\t") for l in outl]


def run_memcheck(seed, timeout=1800):
    """Run vlib.memcheck_job (a small end-to-end workload over v1/v2c/v3 noPriv/DES/AES) under valgrind
    memcheck with the release .so.  Returns dict(exchanges, reports=[(kind, text)]): only report blocks
    with a frame in _fast.so count (CPython's own allocator tricks produce a few internal ones)."""
    import re
    stage = build.stage_python("rel")
    env = build.python_env("rel", stage)
    env["PYTHONMALLOC"] = "malloc"
    try:
        p = subprocess.run(["valgrind", "--error-exitcode=0", "--num-callers=30", build.REAL_PY, "-m", "vlib.memcheck_job", str(seed)],
                           env=env, cwd=VERIF, stdout=subprocess.PIPE, stderr=subprocess.PIPE, text=True, timeout=timeout)
    except subprocess.TimeoutExpired:
        return {"exchanges": 0, "reports": [], "timeout": True}
    ex = len([l for l in p.stdout.split("\n") if l.startswith(("exchange", "oversize", "after"))])
    done = "done" in p.stdout
    reps = []
    for blk in re.split(r"\n==\d+== \n", p.stderr):
        if "_fast.so" not in blk and "gufo_snmp" not in blk:
            continue
        m = re.search(r"==\d+== ((Syscall param|Conditional jump|Use of uninitialised|Invalid (read|write))[^\n]*)", blk)
        if m:
            reps.append((m.group(1)[:80], blk[-1500:]))
    return {"exchanges": ex, "completed": done, "reports": reps, "valgrind_blocks_total": len(re.findall(r"==\d+== \n", p.stderr))}


def run_fuzz(target, runs, seed, seeds=(), max_len=4080, nproc=None, timeout=3000):
    """Build and run a cargo-fuzz target (libFuzzer + ASan) in nproc parallel processes with a
    bounded number of runs each. Returns dict(execs, crashes=[(signature, artifact hex, stderr tail)],
    inconclusive=[text]).

    libFuzzer's RSS watchdog reads getrusage().ru_maxrss, which on Linux a child inherits across fork+exec from
    its parent: launched from a check process that holds gigabytes of recorded cases it reported "out-of-memory"
    on the empty input after a second (peak_rss 8266 MB on a target whose own peak is ~230 MB).  The RSS limit
    is therefore off; a single oversized allocation is still caught by -malloc_limit_mb, and a watchdog report
    with no panic, no ASan block and no malloc size is resource exhaustion of the run = inconclusive."""
    import re
    import shutil
    build.ensure_pkg()
    nproc = nproc or NPROC
    td = os.path.join(build.CACHE, "target-fuzz")
    env = dict(os.environ)
    env.update({"CARGO_NET_OFFLINE": "true", "CARGO_TARGET_DIR": td})
    env.pop("RUSTFLAGS", None)
    with build._Lock("build-fuzz"):
        p = subprocess.run(["cargo", "+nightly", "fuzz", "build", target], cwd=build.PKG, env=env, stdout=subprocess.PIPE,
                           stderr=subprocess.STDOUT, text=True)
    if p.returncode != 0:
        raise HarnessError("cargo fuzz build failed: " + p.stdout[-1500:])
    binp = os.path.join(td, "x86_64-unknown-linux-gnu", "release", target)
    work = tempfile.mkdtemp(prefix="fuzz-", dir=os.path.join(build.CACHE, "stage"))
    build._stages.append(work)
    out = {"execs": 0, "crashes": [], "processes": nproc, "inconclusive": []}

    def one(i):
        cdir, adir = os.path.join(work, "c%d" % i), os.path.join(work, "a%d" % i)
        os.makedirs(cdir)
        os.makedirs(adir)
        for k, b in enumerate(seeds):
            with open(os.path.join(cdir, "seed%d" % k), "wb") as f:
                f.write(b)
        e = dict(env)
        e["ASAN_OPTIONS"] = "detect_leaks=0"
        try:
            return i, subprocess.run([binp, cdir, "-runs=%d" % (runs // nproc), "-seed=%d" % (seed * 64 + i + 1), "-timeout=10",
                                      "-rss_limit_mb=0", "-malloc_limit_mb=2048",
                                      "-max_len=%d" % max_len, "-artifact_prefix=" + adir + "/", "-print_final_stats=1"],
                                     stdout=subprocess.PIPE, stderr=subprocess.PIPE, timeout=timeout, env=e), adir
        except subprocess.TimeoutExpired:
            return i, None, adir
    for i, p, adir in parallel(one, range(nproc)):
        if p is None:
            out.setdefault("timeouts", 0)
            out["timeouts"] += 1
            out["inconclusive"].append("fuzz process %d of %s hit the wall-clock watchdog" % (i, target))
            continue
        se = p.stderr.decode(errors="replace")
        m = re.search(r"stat::number_of_executed_units:\s*(\d+)", se)
        out["execs"] += int(m.group(1)) if m else 0
        if p.returncode != 0:
            arts = [os.path.join(adir, f) for f in os.listdir(adir)]
            art = open(arts[0], "rb").read().hex() if arts else ""
            loc = re.search(r"panicked at (/repo/[\w/.]+:\d+)", se)
            asan = asan_reports(se)
            if not loc and not asan and "panicked at" not in se and (
                    ("libFuzzer: out-of-memory" in se and "malloc(" not in se) or p.returncode in (-9, 137)):
                out["inconclusive"].append("fuzz process %d of %s ran out of memory / was killed (rc=%s): %s"
                                           % (i, target, p.returncode, se[-200:].replace("\n", " | ")))
                continue
            sig = ("panic:" + loc.group(1).replace("/repo/", "")) if loc else (("asan:%s:%s" % asan[0]) if asan else "crash")
            out["crashes"].append((sig, art, se[-1500:]))
    shutil.rmtree(work, ignore_errors=True)
    return out


def parallel(fn, items, nproc=None):
    """Run fn(item) in threads (for subprocess fan-out)."""
    from concurrent.futures import ThreadPoolExecutor
    with ThreadPoolExecutor(max_workers=nproc or NPROC) as ex:
        return list(ex.map(fn, items))


def asan_reports(stderr_text):
    """Extract (kind, first in-repo frame) pairs from ASan output."""
    import re
    reps = []
    for blk in re.split(r"(?==+\d+==ERROR: AddressSanitizer)", stderr_text):
        m = re.search(r"ERROR: AddressSanitizer: ([\w-]+)", blk)
        if not m:
            continue
        fr = re.search(r"(/repo/src/[\w/]+\.rs:\d+)", blk)
        reps.append((m.group(1), fr.group(1) if fr else "?"))
    return reps


def main_args(argv=None):
    import argparse
    ap = argparse.ArgumentParser()
    ap.add_argument("--tier", default=os.environ.get("VERIF_TIER", "quick"), choices=["quick", "thorough"])
    ap.add_argument("--seed", type=int, default=int(os.environ.get("VERIF_SEED", "1") or 1))
    ap.add_argument("--replay", default=None)
    a = ap.parse_args(argv)
    if a.replay:
        sys.exit(replay(a.replay))
    return a


def replay(path):
    """Re-execute the witness stored in a replay file as far as it is self-contained
    (Rig R inputs, ldrive histories, harness-binary invocations); otherwise print the
    witness and the command that regenerates it deterministically (same tier and seed)."""
    r = json.load(open(path))
    c = r.get("case") or {}
    print("replay: property=%s signature=%s" % (r["property"], r["signature"]))
    print("  " + r["description"][:1000])
    variant = c.get("variant") if c.get("variant") in ("rel", "dbg", "asan") else "rel"
    lines = None
    if c.get("lines"):
        lines = c["lines"]
    elif c.get("input") is not None and c.get("decoder"):
        d = c["decoder"]
        lines = ["msg\t%s\t%s" % (d, c["input"])] if d in ("v1", "v2c", "v3") else ["value\t%s" % c["input"]]
    elif c.get("tlv") is not None:
        lines = ["value\t%s%s" % (c["tlv"], c.get("suffix", ""))]
    elif c.get("x") is not None and c.get("decoder"):
        lines = [("value\t%s" if c["decoder"] == "value" else "typed\t" + c["decoder"] + "\t%s") % (c["x"] + c.get("s", ""))]
    elif c.get("string") is not None:
        lines = ["oidparse\t" + (c["string"].encode().hex() or "-")]
    if lines:
        p, out = ldrive(variant, lines)
        for ln, o in zip(lines[-20:], out[-20:]):
            print("  > %s\n  < %s" % (ln[:160], "\t".join(o)[:300]))
        bad = any(o and o[0] == "panic" for o in out) or len(out) != len(lines)
        print("replay: %s" % ("reproduced (panic / abort)" if bad else "executed; compare the output above with the description"))
        return 1 if bad else 0
    if c.get("args") and c.get("rig") == "R":
        print("  re-run: harness binary with args %s in build %s" % (c["args"], c.get("variant")))
    print("  witness: %s" % json.dumps(c, default=_jd)[:3000])
    print("  to regenerate deterministically: VERIF_SEED=%s ./check %s --tier %s" % (r.get("seed"), r["property"], r.get("tier")))
    return 0
