"""Seed corpus of well-formed messages (built with the reference encoder) for
structure-aware mutation in C01/C16."""
import random

from . import ber_ref as B
from . import model as M


def build(seed=1):
    rng = random.Random(seed)
    out = []  # (label, bytes)
    oid = (1, 3, 6, 1, 2, 1, 1, 3, 0)

    def vb(o, vt):
        return B.enc_varbind(o, vt)

    def resp(vbs, rid=0x12345678, es=0, ei=0, tag=B.PDU_RESPONSE, **kw):
        return B.enc_pdu(tag, rid, es, ei, vbs, **kw)

    # every value kind, single varbind, v1 + v2c
    for kind in M.KINDS:
        for _ in range(2):
            v = M.gen_value(rng, [kind], form_p=0.0)
            p = resp([vb(oid, v["tlv"])])
            out.append(("v2c-resp-" + kind, B.enc_msg_c(1, b"public", p)))
    for kind in ("Int", "OctetString", "Counter64", "Real", "Null"):
        v = M.gen_value(rng, [kind], form_p=0.0)
        out.append(("v1-resp-" + kind, B.enc_msg_c(0, b"public", resp([vb(oid, v["tlv"])]))))
    # exception values
    for k, t in M.EXC_TLV.items():
        out.append(("v2c-exc-" + k, B.enc_msg_c(1, b"public", resp([vb(oid, t)]))))
    # multi varbind, long forms
    vbs = [vb(M.gen_oid(rng), M.gen_value(rng)["tlv"]) for _ in range(12)]
    out.append(("v2c-multi12", B.enc_msg_c(1, b"public", resp(vbs))))
    vbs = [vb(M.gen_oid(rng), M.gen_value(rng, form_p=1.0)["tlv"]) for _ in range(3)]
    out.append(("v2c-longforms", B.enc_msg_c(1, b"public", resp(vbs, form=2, vb_form=3), form=4)))
    out.append(("v2c-empty-vbl", B.enc_msg_c(1, b"public", resp([]))))
    out.append(("v2c-empty-varbind", B.enc_msg_c(1, b"public", resp([B.enc_seq([])]))))
    out.append(("v2c-varbind-novalue", B.enc_msg_c(1, b"public", resp([B.enc_seq([B.enc_oid(oid)])]))))
    out.append(("v2c-err", B.enc_msg_c(1, b"public", resp([vb(oid, B.enc_null())], es=2, ei=1))))
    # relative OIDs in varbinds 2.. (non-standard extension the decoder supports)
    rel = [vb(oid, B.enc_int(1)), B.enc_seq([B.tlv(B.RELOID, bytes([4, 0])), B.enc_int(2)]),
           B.enc_seq([B.tlv(B.RELOID, bytes([1, 3, 6, 1, 2, 1, 1, 5, 0])), B.enc_int(3)]),
           B.enc_seq([B.tlv(B.RELOID, bytes([0x87, 0x67])), B.enc_int(4)])]
    out.append(("v2c-reloid", B.enc_msg_c(1, b"public", resp(rel))))
    out.append(("v2c-reloid-first", B.enc_msg_c(1, b"public", resp(rel[1:]))))
    out.append(("v2c-reloid-short", B.enc_msg_c(1, b"public", resp(
        [vb((1, 3), B.enc_int(1)), B.enc_seq([B.tlv(B.RELOID, bytes([5])), B.enc_int(2)]),
         B.enc_seq([B.tlv(B.RELOID, b""), B.enc_int(2)])]))))
    # zero-length OID name, OID value
    out.append(("v2c-oid0", B.enc_msg_c(1, b"public", resp([B.enc_seq([B.tlv(B.OID, b""), B.enc_int(1)])]))))
    # requests
    for tag, nm in ((B.PDU_GET, "get"), (B.PDU_GETNEXT, "next")):
        p = B.enc_pdu(tag, 77, 0, 0, [vb(oid, B.enc_null()), vb((1, 3, 6, 999, 3), B.enc_null())])
        out.append(("v2c-" + nm, B.enc_msg_c(1, b"public", p)))
        out.append(("v1-" + nm, B.enc_msg_c(0, b"private", p)))
    p = B.enc_pdu(B.PDU_GETBULK, 99, 0, 20, [vb(oid, B.enc_null())])
    out.append(("v2c-bulk", B.enc_msg_c(1, b"public", p)))
    out.append(("v2c-report", B.enc_msg_c(1, b"public", resp([vb(oid, B.enc_uint(B.COUNTER32, 5))], tag=B.PDU_REPORT))))
    out.append(("v2c-trap2", B.enc_msg_c(1, b"public", resp([vb(oid, B.enc_int(5))], tag=B.PDU_TRAP2))))
    # v3
    eng = bytes.fromhex("80001f8804323767533836746400")
    usm = B.enc_usm(eng, 5, 1000, b"user10", b"", b"")
    sc = B.enc_scoped(eng, b"", resp([vb(oid, B.enc_int(7))]))
    out.append(("v3-plain", B.enc_msg_v3(0x1234567, 65507, 0, usm, sc)))
    usm_a = B.enc_usm(eng, 5, 1000, b"user10", bytes(12), b"")
    out.append(("v3-auth", B.enc_msg_v3(0x1234567, 65507, 1, usm_a, sc)))
    usm_p = B.enc_usm(eng, 5, 1000, b"user10", bytes(range(12)), bytes(range(8)))
    out.append(("v3-priv", B.enc_msg_v3(0x1234567, 65507, 3, usm_p, B.enc_octets(bytes(rng.randrange(256) for _ in range(64))))))
    rp = B.enc_scoped(eng, b"", resp([vb((1, 3, 6, 1, 6, 3, 15, 1, 1, 4, 0), B.enc_uint(B.COUNTER32, 3))], tag=B.PDU_REPORT))
    out.append(("v3-report", B.enc_msg_v3(1, 65507, 0, B.enc_usm(eng, 0, 0, b"", b"", b""), rp)))
    scg = B.enc_scoped(b"", b"", B.enc_pdu(B.PDU_GET, 5, 0, 0, []))
    out.append(("v3-discovery", B.enc_msg_v3(1, 2048, 4, B.enc_usm(b"", 0, 0, b"", b"", b""), scg)))
    scb = B.enc_scoped(eng, b"ctx", B.enc_pdu(B.PDU_GETBULK, 5, 0, 10, [vb(oid, B.enc_null())]))
    out.append(("v3-bulk", B.enc_msg_v3(1, 2048, 4, usm, scb, form=2)))
    big = [vb(M.gen_oid(rng), M.gen_value(rng)["tlv"]) for _ in range(8)]
    out.append(("v3-multi", B.enc_msg_v3(7, 65507, 0, usm, B.enc_scoped(eng, b"", resp(big)))))
    # bare elements for the value / pdu decoders
    for kind in M.KINDS:
        v = M.gen_value(rng, [kind], form_p=0.3)
        out.append(("bare-" + kind, v["tlv"]))
    out.append(("bare-pdu", resp([vb(oid, B.enc_int(1))])))
    out.append(("bare-scoped", sc))
    return out


def write(path, seed=1):
    items = build(seed)
    with open(path, "w") as f:
        for label, b in items:
            f.write("%s %s\n" % (label, b.hex()))
    return items
