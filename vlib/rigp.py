"""Rig P: scripted SNMP agent on loopback UDP + session factory for the real client.

The agent parses every datagram with the *strict* reference decoder
(vlib.ber_ref), verifies MACs and decrypts with the reference crypto
(vlib.crypto_ref), logs what it saw, and answers according to a per-test
handler.  Nothing here looks inside gufo_snmp.
"""
import os
import random
import socket
import threading
import time

from . import ber_ref as B
from . import crypto_ref as C

REPORT_UNKNOWN_ENGINE = (1, 3, 6, 1, 6, 3, 15, 1, 1, 4, 0)
REPORT_NOT_IN_TIME = (1, 3, 6, 1, 6, 3, 15, 1, 1, 2, 0)
REPORT_WRONG_DIGEST = (1, 3, 6, 1, 6, 3, 15, 1, 1, 5, 0)
REPORT_UNKNOWN_USER = (1, 3, 6, 1, 6, 3, 15, 1, 1, 3, 0)


class UserKeys:
    """Agent-side knowledge of one USM user (keys before localization)."""

    def __init__(self, name, auth_alg=None, auth_ku=None, priv_alg=None, priv_ku=None, auth_kul_fixed=None, priv_kul_fixed=None):
        self.name = name  # bytes
        self.auth_alg, self.auth_ku, self.priv_alg, self.priv_ku = auth_alg, auth_ku, priv_alg, priv_ku
        # a user configured with an already localized key: the key is what it is, whatever the engine id
        self.auth_kul_fixed, self.priv_kul_fixed = auth_kul_fixed, priv_kul_fixed

    def auth_kul(self, engine_id):
        if self.auth_kul_fixed is not None:
            return self.auth_kul_fixed
        return C.localize(self.auth_alg, self.auth_ku, engine_id) if self.auth_alg else None

    def priv_kul(self, engine_id):
        if self.priv_kul_fixed is not None:
            return self.priv_kul_fixed
        return C.localize(self.auth_alg, self.priv_ku, engine_id) if self.priv_alg else None


class Req:
    """A datagram as seen by the agent."""

    def __init__(self, raw):
        self.raw = bytes(raw)
        self.ok = False        # strict-decoded as an SNMP message
        self.err = None
        self.m = None          # dec_message() dict
        self.version = None
        self.pdu = None        # dict from dec_pdu (plaintext or after reference decryption)
        self.request_id = None
        self.mac_ok = None     # v3 with auth flag: reference MAC verification
        self.decrypt_ok = None
        self.pad = None        # octets after the scopedPDU inside decrypted msgData
        self.scoped = None
        self.plaintext = None  # decrypted msgData

    def oids(self):
        return [vb[0] for vb in self.pdu["varbinds"]] if self.pdu else None


class Agent:
    def __init__(self, handler=None, engine_id=None, boots=1, etime=100, users=None, rng=None):
        self.sock = socket.socket(socket.AF_INET, socket.SOCK_DGRAM)
        self.sock.bind(("127.0.0.1", 0))
        self.sock.settimeout(0.02)
        try:
            self.sock.setsockopt(socket.SOL_SOCKET, socket.SO_RCVBUF, 1 << 20)
        except OSError:
            pass
        self.port = self.sock.getsockname()[1]
        self.handler = handler
        self.engine_id = engine_id or bytes.fromhex("8000000001020304")
        self.boots, self.time = boots, etime
        self.users = {u.name: u for u in (users or [])}
        self.log = []          # (kind, t_ns, payload)
        self.reqs = []         # Req objects in arrival order
        self.rng = rng or random.Random(0)
        self._stop = False
        self._thr = None
        self.errors = []       # exceptions inside the handler (harness errors)
        self.busy = False
        self.client_addr = None

    # -- lifecycle
    def start(self):
        self._thr = threading.Thread(target=self._run, daemon=True)
        self._thr.start()
        return self

    def stop(self):
        self._stop = True
        if self._thr:
            self._thr.join(2)
        self.sock.close()

    def __enter__(self):
        return self.start()

    def __exit__(self, *a):
        self.stop()

    def reset_log(self):
        self.log, self.reqs = [], []

    # -- main loop
    def _run(self):
        while not self._stop:
            try:
                data, addr = self.sock.recvfrom(65535)
            except socket.timeout:
                continue
            except OSError:
                break
            self.busy = True
            self.client_addr = addr
            req = self.parse(data)
            self.reqs.append(req)
            self.log.append(("rx", time.perf_counter_ns(), data))
            if not self.handler:
                self.busy = False
                continue
            try:
                out = self.handler(self, req)
            except Exception as e:  # harness error, not a verdict
                import traceback
                self.errors.append(traceback.format_exc())
                out = None
            if out is None:
                self.busy = False
                continue
            if isinstance(out, (bytes, bytearray)):
                out = [(0, out)]
            t0 = time.perf_counter()
            for item in out:
                delay, dg = item if isinstance(item, tuple) else (0, item)
                if delay:
                    rest = t0 + delay - time.perf_counter()
                    if rest > 0.002:
                        time.sleep(rest - 0.0015)
                    while t0 + delay - time.perf_counter() > 0:
                        pass  # spin for the last 1.5 ms: sub-millisecond schedules need it
                self.send(dg, addr)
            self.busy = False

    def wait_idle(self, timeout=5.0):
        """Block until the agent thread has sent everything its last handler call returned."""
        t_end = time.time() + timeout
        while self.busy and time.time() < t_end:
            time.sleep(0.0005)
        return not self.busy

    def send(self, dg, addr=None):
        try:
            self.sock.sendto(dg, addr or self.client_addr)
            self.log.append(("tx", time.perf_counter_ns(), bytes(dg)))
        except OSError as e:
            self.log.append(("txerr", time.perf_counter_ns(), repr(e)))

    # -- reference parsing of a request
    def parse(self, data):
        r = Req(data)
        try:
            m = B.dec_message(data, strict=True)
        except (B.StrictError, IndexError, ValueError) as e:
            r.err = "strict: %s" % e
            return r
        r.m, r.version = m, m["version"]
        if m["version"] in (0, 1):
            r.pdu, r.request_id, r.ok = m["pdu"], m["pdu"]["request_id"], True
            return r
        usm = m["usm"]
        user = self.users.get(usm["user"])
        eng = usm["engine_id"] or self.engine_id
        if m["flags"] & 1:
            r.mac_ok = False
            if user and user.auth_alg and m["auth_params_len"] == 12:
                z = bytearray(data)
                off = m["auth_params_off"]
                z[off:off + 12] = bytes(12)
                r.mac_ok = C.hmac96(user.auth_alg, user.auth_kul(eng), bytes(z)) == usm["auth_params"]
        if "enc" in m:
            r.decrypt_ok = False
            if user and user.priv_alg and len(usm["priv_params"]) == 8:
                kul = user.priv_kul(eng)
                try:
                    if user.priv_alg == C.DES:
                        if len(m["enc"]) % 8:
                            raise B.StrictError("DES ciphertext not a block multiple")
                        pt = C.usm_des_decrypt(kul, usm["priv_params"], m["enc"])
                    else:
                        pt = C.usm_aes_decrypt(kul, usm["boots"], usm["time"], usm["priv_params"], m["enc"])
                    r.plaintext = pt
                    sc, used = B.dec_scoped(pt, strict=True, allow_trailing=True)
                    r.scoped, r.pad, r.decrypt_ok = sc, len(pt) - used, True
                except (B.StrictError, IndexError, ValueError) as e:
                    r.err = "decrypt/parse: %s" % e
                    return r
            else:
                r.err = "cannot decrypt (unknown user/alg or bad salt length)"
                return r
        else:
            r.scoped = m["scoped"]
        r.pdu = r.scoped["pdu"]
        r.request_id = r.pdu["request_id"]
        r.ok = True
        return r

    # -- building replies
    def reply(self, req, varbinds=(), pdu_tag=B.PDU_RESPONSE, error_status=0, error_index=0, **ov):
        """Build a reply datagram for req. varbinds: list of encoded varbind TLVs.

        Overrides (all optional): request_id, community, version, msg_id, user,
        engine_id, ctx_engine_id, boots, time, flags, mac ('valid'|'zero'|'random'|
        'flip:<bit>'|'empty'|'len11'|'len13'), encrypt (bool), salt, pad (bytes
        appended to the plaintext before encryption), pdu (raw PDU bytes),
        vb_form/pdu_form/msg_form (long-form length octets), auth_user
        (UserKeys used to sign/encrypt instead of the agent's entry).
        """
        rid = ov.get("request_id", req.request_id if req.request_id is not None else 0)
        pdu = ov.get("pdu")
        if pdu is None:
            pdu = B.enc_pdu(pdu_tag, rid, error_status, error_index, list(varbinds),
                            form=ov.get("pdu_form"), vb_form=ov.get("vb_form"))
        ver = ov.get("version", req.version if req.version is not None else 1)
        if ver in (0, 1):
            comm = ov.get("community", req.m["community"] if req.m and "community" in req.m else b"public")
            return B.enc_msg_c(ver, comm, pdu, form=ov.get("msg_form"))
        # v3
        m = req.m if (req.m and req.m.get("version") == 3) else None
        usm_in = m["usm"] if m else {"user": b"", "engine_id": b""}
        msg_id = ov.get("msg_id", m["msg_id"] if m else 0)
        user_name = ov.get("user", usm_in["user"])
        engine_id = ov.get("engine_id", self.engine_id)
        ctx_engine = ov.get("ctx_engine_id", engine_id if getattr(self, "ctx_engine_id", None) is None else self.ctx_engine_id)
        boots, tm = ov.get("boots", self.boots), ov.get("time", self.time)
        uk = ov.get("auth_user", self.users.get(usm_in["user"]))
        in_flags = m["flags"] if m else 0
        flags = ov.get("flags", in_flags & 3)
        mac_mode = ov.get("mac", "valid" if flags & 1 else "empty")
        encrypt = ov.get("encrypt", bool(flags & 2))
        scoped = ov.get("scoped_raw") if ov.get("scoped_raw") is not None else B.enc_scoped(ctx_engine, b"", pdu)
        priv_params = b""
        if encrypt:
            if not (uk and uk.priv_alg):
                raise RuntimeError("agent: cannot encrypt without priv key")
            salt = ov.get("salt", bytes(self.rng.randrange(256) for _ in range(8)))
            kul = uk.priv_kul(engine_id)
            pt = scoped + ov.get("pad", b"")
            if uk.priv_alg == C.DES:
                if len(pt) % 8 and ov.get("des_truncate"):
                    pt = pt[:len(pt) - len(pt) % 8]
                if len(pt) % 8:
                    pt += bytes(self.rng.randrange(256) for _ in range(8 - len(pt) % 8))
                data = B.enc_octets(C.usm_des_encrypt(kul, salt, pt))
            else:
                data = B.enc_octets(C.usm_aes_encrypt(kul, boots, tm, salt, pt))
            priv_params = salt
        else:
            data = scoped
        placeholder = {"valid": 12, "zero": 12, "random": 12, "empty": 0, "len11": 11, "len13": 13}.get(
            mac_mode.split(":")[0] if mac_mode.startswith("flip") else mac_mode, 12)
        if mac_mode.startswith("flip"):
            placeholder = 12
        # a unique marker in place of the MAC lets us find the field without re-parsing
        # (the body may be deliberately malformed)
        marker = bytes(self.rng.randrange(1, 256) for _ in range(placeholder))
        usm = B.enc_usm(engine_id, boots, tm, user_name, marker, priv_params)
        dg = bytearray(B.enc_msg_v3(msg_id, ov.get("max_size", 65507), flags, usm, data, form=ov.get("msg_form")))
        if placeholder:
            off, ln = bytes(dg).find(marker), placeholder
            if placeholder < 8 or bytes(dg).count(marker) != 1:
                # too short to be unique: locate structurally (header is well-formed by construction)
                mm = B.dec_message(bytes(dg), strict=False) if placeholder < 8 else None
                off = mm["auth_params_off"] if mm else off
            dg[off:off + ln] = bytes(ln)
            if mac_mode == "zero":
                mac = bytes(ln)
            elif mac_mode == "random":
                mac = bytes(self.rng.randrange(256) for _ in range(ln))
            else:
                if not (uk and uk.auth_alg):
                    raise RuntimeError("agent: cannot sign without auth key")
                full = C.hmac96(uk.auth_alg, uk.auth_kul(engine_id), bytes(dg))
                if mac_mode == "valid":
                    mac = full
                elif mac_mode.startswith("flip"):
                    bit = int(mac_mode.split(":")[1])
                    mb = bytearray(full)
                    mb[bit // 8] ^= 1 << (bit % 8)
                    mac = bytes(mb)
                else:  # len11 / len13: a MAC-like field of the wrong size
                    mac = (full + b"\x00")[:ln]
            dg[off:off + ln] = mac
        return bytes(dg)

    def report(self, req, oid=REPORT_UNKNOWN_ENGINE, counter=1, **ov):
        vb = B.enc_varbind(oid, B.enc_uint(B.COUNTER32, counter))
        return self.reply(req, [vb], pdu_tag=B.PDU_REPORT, **ov)

    def discovery_or(self, req, fn):
        """Standard engine behaviour: answer discovery / time-sync probes with
        Reports, otherwise call fn(req)."""
        if req.ok and req.version == 3:
            usm = req.m["usm"]
            if usm["engine_id"] == b"":
                return self.report(req, REPORT_UNKNOWN_ENGINE, flags=0, mac="empty", encrypt=False,
                                   request_id=req.request_id)
            if (req.m["flags"] & 1) and (usm["boots"], usm["time"]) != (self.boots, self.time):
                # authenticated message outside the time window (the client's time
                # synchronisation probe): authenticated report, never encrypted
                return self.report(req, REPORT_NOT_IN_TIME, flags=1, encrypt=False)
        return fn(req)


# ---------------------------------------------------------------- sessions
class Cfg:
    """One client configuration K."""

    def __init__(self, version="v2c", community="public", user="u", auth=None, priv=None,
                 auth_kt="password", priv_kt="password", auth_pw=b"authpass123", priv_pw=b"privpass456",
                 engine_given=False, client="sync", empty_engine=False, auth_raw=None, priv_raw=None):
        self.version, self.community, self.user = version, community, user
        self.auth, self.priv = auth, priv          # None | 'md5' | 'sha1' ; None | 'des' | 'aes'
        self.auth_kt, self.priv_kt = auth_kt, priv_kt
        self.auth_pw, self.priv_pw = auth_pw, priv_pw
        self.engine_given, self.client = engine_given, client
        self.empty_engine = empty_engine   # pass engine_id=b"" explicitly instead of None (same meaning: discover)
        # raw mode: these very octets are handed to the API under auth_kt / priv_kt (instead of deriving the master /
        # localized form from a pass phrase), e.g. the same octets as auth *password* and privacy *master key*
        self.auth_raw, self.priv_raw = auth_raw, priv_raw

    def key(self):
        if self.version != "v3":
            return "%s/%s" % (self.version, self.client)
        return "v3/%s/%s/%s%s/%s/%s" % (self.auth or "noauth", self.priv or "nopriv", self.auth_kt[0], self.priv_kt[0],
                                        "eng" if self.engine_given else ("disc0" if self.empty_engine else "disc"), self.client)

    def auth_alg(self):
        return {None: None, "md5": C.MD5, "sha1": C.SHA1}[self.auth]

    def priv_alg(self):
        return {None: None, "des": C.DES, "aes": C.AES}[self.priv]

    def user_keys(self):
        a = self.auth_alg()
        if a and (self.auth_raw is not None or self.priv_raw is not None):
            L = C.KEYLEN[a]

            def from_raw(raw, kt, pw):
                # -> (Ku, fixed Kul); the Python layer pads / truncates master and localized keys to the digest size
                if raw is None:
                    return C.password_to_key(a, pw), None
                if kt == "password":
                    return C.password_to_key(a, raw), None
                padded = (raw + bytes(L))[:L]
                return (padded, None) if kt == "master" else (None, padded)
            aku, akul = from_raw(self.auth_raw, self.auth_kt, self.auth_pw)
            pku, pkul = from_raw(self.priv_raw, self.priv_kt, self.priv_pw) if self.priv else (None, None)
            return UserKeys(self.user.encode(), a, aku, self.priv_alg(), pku, auth_kul_fixed=akul, priv_kul_fixed=pkul)
        return UserKeys(self.user.encode(), a, C.password_to_key(a, self.auth_pw) if a else None,
                        self.priv_alg(), C.password_to_key(a, self.priv_pw) if (a and self.priv) else None)

    def to_json(self):
        d = dict(self.__dict__)
        d["auth_pw"], d["priv_pw"] = self.auth_pw.hex(), self.priv_pw.hex()
        d["auth_raw"] = self.auth_raw.hex() if self.auth_raw is not None else None
        d["priv_raw"] = self.priv_raw.hex() if self.priv_raw is not None else None
        return d

    @staticmethod
    def from_json(d):
        d = dict(d)
        d["auth_pw"], d["priv_pw"] = bytes.fromhex(d["auth_pw"]), bytes.fromhex(d["priv_pw"])
        for k in ("auth_raw", "priv_raw"):
            d[k] = bytes.fromhex(d[k]) if d.get(k) is not None else None
        return Cfg(**d)


def make_user(cfg, engine_id, key_cache=None):
    """Build the gufo.snmp User for cfg (keys in the configured key type).
    key_cache: dict shared by several calls - pass-phrase key *objects* are then reused between different User objects
    (the same DesKey("secret") handed to an MD5 user and to a SHA-1 user), which the API allows."""
    from gufo.snmp.user import Aes128Key, DesKey, KeyType, Md5Key, Sha1Key, User
    kt = {"password": KeyType.Password, "master": KeyType.Master, "localized": KeyType.Localized}
    ak = pk = None
    a = cfg.auth_alg()
    if a:
        cls = Md5Key if cfg.auth == "md5" else Sha1Key
        if cfg.auth_raw is not None:
            v = cfg.auth_raw
        elif cfg.auth_kt == "password":
            v = cfg.auth_pw
        elif cfg.auth_kt == "master":
            v = C.password_to_key(a, cfg.auth_pw)
        else:
            v = C.localize(a, C.password_to_key(a, cfg.auth_pw), engine_id)
        ak = cls(v, key_type=kt[cfg.auth_kt])
        if key_cache is not None and cfg.auth_kt == "password":
            ak = key_cache.setdefault(("auth", cls.__name__, bytes(v)), ak)
    if cfg.priv:
        cls = DesKey if cfg.priv == "des" else Aes128Key
        if cfg.priv_raw is not None:
            v = cfg.priv_raw
        elif cfg.priv_kt == "password":
            v = cfg.priv_pw
        elif cfg.priv_kt == "master":
            v = C.password_to_key(a, cfg.priv_pw)
        else:
            v = C.localize(a, C.password_to_key(a, cfg.priv_pw), engine_id)
        pk = cls(v, key_type=kt[cfg.priv_kt])
        if key_cache is not None and cfg.priv_kt == "password":
            pk = key_cache.setdefault(("priv", cls.__name__, bytes(v)), pk)
    return User(cfg.user, auth_key=ak, priv_key=pk)


def make_session(cfg, agent, timeout=1.0, user=None, **kw):
    """Create the real client session (sync or async class) for cfg against agent.
    user: an existing gufo.snmp User object to reuse (one User shared by several sessions)."""
    from gufo.snmp import SnmpVersion
    if cfg.client == "sync":
        from gufo.snmp.sync_client import SnmpSession
    else:
        from gufo.snmp.async_client import SnmpSession
    if cfg.version == "v3":
        user = user or make_user(cfg, agent.engine_id)
        return SnmpSession("127.0.0.1", port=agent.port, user=user, version=SnmpVersion.v3,
                           engine_id=agent.engine_id if cfg.engine_given else (b"" if cfg.empty_engine else None), timeout=timeout, **kw)
    ver = SnmpVersion.v1 if cfg.version == "v1" else SnmpVersion.v2c
    return SnmpSession("127.0.0.1", port=agent.port, community=cfg.community, version=ver, timeout=timeout, **kw)


def all_v3_cfgs(clients=("sync",), key_types=("password",), engine=(False,)):
    out = []
    for cl in clients:
        for eg in engine:
            out.append(Cfg("v3", auth=None, priv=None, engine_given=eg, client=cl))
            for a in ("md5", "sha1"):
                for p in (None, "des", "aes"):
                    for kt in key_types:
                        out.append(Cfg("v3", auth=a, priv=p, auth_kt=kt, priv_kt=kt, engine_given=eg, client=cl))
    return out


def base_cfgs(clients=("sync", "async")):
    """The six security configurations of C01 x client kinds."""
    out = []
    for cl in clients:
        out += [Cfg("v1", client=cl), Cfg("v2c", client=cl),
                Cfg("v3", client=cl), Cfg("v3", auth="sha1", client=cl),
                Cfg("v3", auth="md5", priv="des", client=cl), Cfg("v3", auth="sha1", priv="aes", client=cl)]
    return out


def exc_info(e):
    """Class name + MRO names (so PanicException, a BaseException, is visible)."""
    return {"cls": type(e).__name__, "mro": [c.__name__ for c in type(e).__mro__], "msg": str(e)[:200],
            "is_exception": isinstance(e, Exception)}
