"""Executable specifications written from the property statements (not from the code)."""


def in_subtree(base, oid):
    return len(oid) > len(base) and tuple(oid[:len(base)]) == tuple(base)


def check_walk(op, base, exchanges, yields, outcome, script_len):
    """C06 oracle.  exchanges: [(request_oid, reply)] as seen by the agent, reply = list of
    (oid, kind, serial) with kind in {'int','null','nso','nsi','eomv'}; yields: [(oid, value)]
    delivered to the caller; outcome: ('ok',) or ('exc', info).
    Returns list of (sig, message); empty = every safety clause held."""
    bad = []
    yi, cur, prev_y, ended, why_ended = 0, tuple(base), None, False, None
    if len([e for e in exchanges if e[1] != "DROPPED"]) > script_len + 1:
        bad.append(("no-termination", "%d requests for a script of %d replies (+1 endOfMibView): the walk does not end" % (len(exchanges), script_len)))
    for k, (req_oid, reply) in enumerate(exchanges):
        if ended:
            bad.append(("request-after-end", "request %d (for %s) was sent although the walk had to end (%s)" % (k, ".".join(map(str, req_oid)), why_ended)))
            break
        if tuple(req_oid) != cur:
            bad.append(("wrong-continuation", "request %d asks for %s, the last accepted OID is %s" % (
                k, ".".join(map(str, req_oid)), ".".join(map(str, cur)))))
            break
        if reply == "DROPPED":
            # this datagram was lost and the caller retried next(): nothing changes, the retry must ask for the same OID
            continue
        if op == "getnext" and len(reply) != 1:
            # statement silent on multi-varbind GetNext replies: any outcome, but nothing may be yielded from it
            ended, why_ended = True, "GetNext reply with %d varbinds" % len(reply)
            continue
        accepted = 0
        for (oid, kind, serial) in reply:
            oid = tuple(oid)
            if kind != "int":
                if op == "getnext":
                    break
                continue
            if not in_subtree(base, oid):
                ended, why_ended = True, "data value outside the subtree in reply %d" % k
                break
            if prev_y is not None and oid <= prev_y:
                ended, why_ended = True, "non-increasing OID %s after %s in reply %d" % (".".join(map(str, oid)), ".".join(map(str, prev_y)), k)
                break
            if yi < len(yields) and tuple(yields[yi][0]) == oid and yields[yi][1] == serial:
                yi += 1
                prev_y = cur = oid
                accepted += 1
            else:
                got = yields[yi] if yi < len(yields) else None
                if got is None and outcome[0] == "exc":
                    # an error raised later in the same reply may suppress its (buffered) entries: allowed
                    ended, why_ended = True, "error"
                    break
                bad.append(("yield-mismatch", "reply %d carries in-subtree entry %s=%s next, but the caller got %r" % (
                    k, ".".join(map(str, oid)), serial, got)))
                return bad
        if accepted == 0 and not ended:
            ended, why_ended = True, "reply %d carried no data value" % k
    if yi != len(yields):
        y = yields[yi]
        bad.append(("spurious-yield", "caller was given %r which no reply justified at that point (stop condition, out of subtree, "
                    "non-increasing or never received)" % (y,)))
    return bad
