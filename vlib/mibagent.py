"""RFC 3416 GetNext / GetBulk over a finite MIB (sorted tuples) - reference agent logic."""
import bisect

from . import ber_ref as B
from . import model as M


class Mib:
    def __init__(self, entries):
        """entries: iterable of (oid_tuple, value_tlv, python_value)."""
        self.entries = sorted(entries, key=lambda e: e[0])
        self.keys = [e[0] for e in self.entries]

    def get(self, oid):
        i = bisect.bisect_left(self.keys, oid)
        if i < len(self.keys) and self.keys[i] == oid:
            return self.entries[i]
        return None

    def next_index(self, oid):
        return bisect.bisect_right(self.keys, oid)

    def subtree(self, base):
        """Model answer for a walk: entries strictly below base, in order."""
        return [e for e in self.entries if len(e[0]) > len(base) and e[0][:len(base)] == base]

    # -- replies as lists of varbind TLVs
    def vb_get(self, oids, v1=False):
        out = []
        for o in oids:
            e = self.get(o)
            out.append(B.enc_varbind(o, e[1] if e else M.EXC_TLV["NoSuchInstance"]))
        return out

    def getnext_one(self, oid):
        i = self.next_index(oid)
        return self.entries[i] if i < len(self.entries) else None

    def vb_getnext(self, oids):
        """v2 semantics: endOfMibView with the request OID when exhausted."""
        out = []
        for o in oids:
            e = self.getnext_one(o)
            out.append(B.enc_varbind(e[0], e[1]) if e else B.enc_varbind(o, M.EXC_TLV["EndOfMibView"]))
        return out

    def vb_getbulk(self, oids, non_repeaters, max_repetitions, cap=None):
        out = []
        nr = max(0, min(non_repeaters, len(oids)))
        for o in oids[:nr]:
            e = self.getnext_one(o)
            out.append(B.enc_varbind(e[0], e[1]) if e else B.enc_varbind(o, M.EXC_TLV["EndOfMibView"]))
        rep = oids[nr:]
        m = max(0, max_repetitions)
        if cap is not None:
            m = min(m, cap)
        cur = list(rep)
        for _ in range(m):
            all_end = True
            for k, o in enumerate(cur):
                e = self.getnext_one(o)
                if e:
                    out.append(B.enc_varbind(e[0], e[1]))
                    cur[k] = e[0]
                    all_end = False
                else:
                    out.append(B.enc_varbind(o, M.EXC_TLV["EndOfMibView"]))
            if all_end:
                break
        return out


def answer(mib, req, agent, cap=None):
    """Compliant reply datagram for a parsed request (v1 rules for version 0)."""
    tag, oids = req.pdu["tag"], req.oids()
    v1 = req.version == 0
    if tag == B.PDU_GET:
        if v1:
            for i, o in enumerate(oids):
                if mib.get(o) is None:
                    return agent.reply(req, [B.enc_varbind(x, B.enc_null()) for x in oids], error_status=2, error_index=i + 1)
        return agent.reply(req, mib.vb_get(oids))
    if tag == B.PDU_GETNEXT:
        if v1:
            for i, o in enumerate(oids):
                if mib.getnext_one(o) is None:
                    return agent.reply(req, [B.enc_varbind(x, B.enc_null()) for x in oids], error_status=2, error_index=i + 1)
        return agent.reply(req, mib.vb_getnext(oids))
    if tag == B.PDU_GETBULK:
        return agent.reply(req, mib.vb_getbulk(oids, req.pdu["a"], req.pdu["b"], cap))
    return None
