"""Value / OID / varbind model: generators that return both the BER encoding
(built with vlib.ber_ref) and the Python object the client must deliver."""
import math
import struct
from fractions import Fraction

from . import ber_ref as B

ARC_EDGES = [0, 1, 127, 128, 129, 255, 256, 16383, 16384, 2097151, 2097152, 268435455, 268435456, 4294967295]


def gen_arc(rng):
    r = rng.random()
    if r < 0.45:
        return rng.randrange(0, 128)
    if r < 0.75:
        return rng.choice(ARC_EDGES)
    return rng.randrange(0, 1 << rng.choice([8, 14, 16, 21, 28, 32]))


WELL_KNOWN = [(1, 3, 6, 1, 2, 1), (1, 3, 6, 1, 4, 1), (1, 3, 6, 1, 6, 3), (1, 3, 6, 1, 6, 1), (1, 3, 6, 1, 6, 2), (1, 3, 6, 1, 3), (1, 3, 6, 1, 5),
              (1, 3, 6, 1, 2, 1, 1), (1, 3, 6, 1, 2, 1, 2, 2, 1), (1, 3, 6, 1, 6, 3, 1, 1, 4, 1), (1, 3, 6, 1, 6, 3, 10, 2, 1), (1, 3, 6, 1, 6, 3, 15, 1, 1),
              (1, 3, 6, 1, 4, 1, 9), (1, 3, 6, 1, 4, 1, 2636), (1, 0, 8802, 1, 1, 2), (1, 2, 840, 10006, 300, 43), (2, 16, 840, 1, 113883)]


def gen_oid(rng, min_arcs=2, max_arcs=14, first=None):
    """A valid OID whose first octet is < 120 (first arc 0..2, second 0..39)."""
    if first is None and min_arcs <= 8 <= max_arcs and rng.random() < 0.15:
        # names as they occur in practice: a well-known root and a few arcs below it (code that treats such roots
        # specially is only exercised by them)
        root = rng.choice(WELL_KNOWN)
        return root + tuple(gen_arc(rng) for _ in range(rng.randint(0, max(0, min(max_arcs, 14) - len(root)))))
    n = rng.randint(min_arcs, max_arcs)
    a0 = rng.choice([0, 1, 1, 1, 2]) if first is None else first
    a1 = rng.choice([0, 3, 3, 39, rng.randrange(40)])
    return (a0, a1) + tuple(gen_arc(rng) for _ in range(n - 2))


def spell(rng, arcs, p=0.5):
    """Dotted text for arcs; with probability p one that the parser also accepts but that is not canonical
    (zero-padded arcs as in '1.3.6.1.2.1.2.2.1.02', an explicit '+'): results must not echo the caller's spelling."""
    if rng.random() >= p:
        return ".".join(str(a) for a in arcs)
    t = [str(a) for a in arcs]
    for _ in range(rng.choice([1, 1, 2])):
        i = rng.randrange(len(t))
        t[i] = rng.choice(["0", "00", "+"]) + t[i].lstrip("+")
    return ".".join(t)


def gen_oid_wide(rng, max_arcs=10):
    """A valid X.690 OID under joint-iso-itu-t(2) whose second arc is >= 40 (8.19.4: the first sub-identifier is
    40*2 + second and takes several octets from 2.48 on).  An agent may send these; the text parser need not accept them."""
    a1 = rng.choice([40, 47, 48, 175, 176, 999, 16303, 16304, 2097071, 2097072, 4294967215,
                     rng.randrange(40, 48), rng.randrange(48, 1000), rng.randrange(40, 4294967216)])
    return (2, a1) + tuple(gen_arc(rng) for _ in range(rng.randint(0, max_arcs - 2)))


def int_edges():
    out = {0, 1, -1}
    for k in range(1, 9):
        for base in (1 << (8 * k - 1), 1 << (8 * k)):
            for d in (-2, -1, 0, 1, 2):
                for s in (1, -1):
                    v = s * base + d
                    if -(1 << 63) <= v < (1 << 63):
                        out.add(v)
    out.add(-(1 << 63))
    out.add((1 << 63) - 1)
    return sorted(out)


INT_EDGES = int_edges()


def gen_int(rng):
    r = rng.random()
    if r < 0.5:
        return rng.choice(INT_EDGES)
    k = rng.randint(1, 8)
    return rng.randrange(-(1 << (8 * k - 1)), 1 << (8 * k - 1))


def gen_uint(rng, bits):
    r = rng.random()
    top = (1 << bits) - 1
    if r < 0.4:
        return rng.choice([0, 1, 127, 128, 255, 256, 32767, 32768, 65535, 65536, (1 << 24) - 1, 1 << 24,
                           (1 << 31) - 1, 1 << 31, top, top - 1] + ([(1 << 32) - 1, 1 << 32, (1 << 63) - 1, 1 << 63] if bits == 64 else []))
    return rng.randrange(0, top + 1) >> rng.randrange(0, bits)


def gen_bytes(rng):
    n = rng.choice([0, 1, 2, 5, 16, 127, 128, 129, 255, 256, 300, rng.randrange(0, 64), rng.randrange(0, 64)])
    return bytes(rng.randrange(256) for _ in range(n))


# ---------------------------------------------------------------- REAL
def real_binary_value(sign, base, f, exp, mantissa):
    v = Fraction(mantissa) * (Fraction(2) ** f) * (Fraction(base) ** exp)
    return -float(v) if sign < 0 else float(v)


def gen_real(rng):
    """-> (content octets, expected float, class label)."""
    r = rng.random()
    if r < 0.12:
        k = rng.choice(["+0", "inf", "-inf", "nan", "-0"])
        return B.real_special(k), {"+0": 0.0, "inf": math.inf, "-inf": -math.inf, "nan": math.nan, "-0": -0.0}[k], "special:" + k
    if r < 0.5:
        nr = rng.choice([1, 2, 3])
        sign = rng.choice(["", "", "-"])
        if nr == 1:
            digits = str(rng.choice([0, 7, 456, 2147483647, 2147483648, 4294967296, 9007199254740992,
                                     rng.randrange(10 ** rng.randint(1, 15))]))
            text = sign + digits
        elif nr == 2:
            ip = str(rng.randrange(10 ** rng.randint(1, 9)))
            fp = "".join(rng.choice("0123456789") for _ in range(rng.randint(1, 6)))
            text = sign + ip + "." + fp
        else:
            m = str(rng.randrange(1, 10 ** rng.randint(1, 9)))
            if rng.random() < 0.5:
                m = m + "." + str(rng.randrange(10 ** rng.randint(1, 4)))
            e = rng.choice(["E", "e"]) + rng.choice(["", "+", "-"]) + str(rng.randrange(0, 30))
            text = sign + m + e
        if float(text) == 0.0:
            text = text.lstrip("-")  # ISO 6093: zero is never written with a minus sign
        return B.real_decimal(nr, text), float(text), "NR%d" % nr
    sign = rng.choice([1, -1])
    base = rng.choice([2, 8, 16])
    f = rng.randrange(4)
    exp = rng.choice([0, 1, -1, 2, -2, 10, -10, 127, -128, 128, -129, 200, -200, rng.randrange(-60, 60)])
    if base != 2:
        exp = max(-60, min(60, exp))
    mant = rng.choice([0, 1, 3, 255, 256, 65535, 65537, (1 << 24) + 1, (1 << 32) - 1, 1 << 32, (1 << 32) + 1,
                       (1 << 53) - 1, 1 << 53, rng.randrange(1 << rng.randint(1, 53))])
    if rng.random() < 0.2:
        # a long mantissa (9..16 octets) whose value is still exactly representable: m * 2^k, m < 2^53
        k = rng.choice([11, 12, 40, 58, 59, 64, 70])
        mant = rng.randrange(1, 1 << rng.choice([1, 12, 53])) << k
        exp = max(-60, min(60, exp)) - (k if base == 2 else 0)
    fmt = rng.choice([None, None, 0, 1, 2, 3])
    if fmt is not None and fmt < 3:
        n = fmt + 1
        if not (-(1 << (8 * n - 1)) <= exp < (1 << (8 * n - 1))):
            fmt = None
    c = B.real_binary(sign, base, f, exp, mant, fmt)
    return c, real_binary_value(sign, base, f, exp, mant), "bin:b%d:f%d:e%s" % (base, f, "x" if fmt is None else fmt)


def float_same(a, b):
    if not isinstance(a, float) or not isinstance(b, float):
        return False
    if math.isnan(a) or math.isnan(b):
        return math.isnan(a) and math.isnan(b)
    return a == b and math.copysign(1, a) == math.copysign(1, b)


# ---------------------------------------------------------------- values
KINDS = ["Int", "Counter32", "Gauge32", "TimeTicks", "UInteger32", "Counter64", "OctetString", "Opaque",
         "ObjectDescriptor", "IpAddress", "Oid", "Bool", "Real", "Null"]


def gen_wrapped(rng):
    """Octets that look like BER themselves - what Opaque is for (RFC 2578 7.1.9), and what net-snmp puts into it:
    9f 78 04 <float>, 9f 79 08 <double>, 9f 7a <int64>, 9f 7b <uint64>, nested Opaque / SEQUENCE / INTEGER - complete,
    cut short, or with a length octet that promises more than is there.  The client hands the octets over untouched."""
    head, n = rng.choice([(b"\x9f\x78", 4), (b"\x9f\x79", 8), (b"\x9f\x7a", 8), (b"\x9f\x7b", 8), (b"\x9f\x7a", 3), (b"\x44", 11),
                          (b"\x30", 6), (b"\x02", 4), (b"\x04", 20), (b"\x06", 7), (b"\x9f\x78", 8), (b"\x9f\x79", 4)])
    body = bytes(rng.randrange(256) for _ in range(n))
    full = head + bytes([n]) + body
    k = rng.randrange(6)
    if k == 0:
        return full
    if k == 1:
        return full[:rng.randrange(len(head), len(full))]          # cut short
    if k == 2:
        return full + bytes(rng.randrange(256) for _ in range(rng.choice([1, 2, 8])))   # trailing octets
    if k == 3:
        return head + bytes([n + rng.choice([1, 4, 100])]) + body   # length promises more
    if k == 4:
        return head + bytes([0x81, n]) + body                       # long-form length
    return head + bytes([rng.choice([0, 0x80, 0x84, 0xff])]) + body[:rng.randrange(0, n + 1)]


def gen_value(rng, kinds=None, form_p=0.2):
    """-> dict(kind, tlv, py, cls). py is the Python value the client must deliver."""
    kind = rng.choice(kinds or KINDS)
    form = rng.choice([1, 2, 3, 4, 4, 5, 8, 9, 10]) if rng.random() < form_p else None
    cls = kind
    if kind == "Int":
        v = gen_int(rng)
        t, py = B.enc_int(v, form), v
        cls = "Int:%d%s" % (len(B.int_content(v)), "-" if v < 0 else "+")
    elif kind in ("Counter32", "Gauge32", "TimeTicks", "UInteger32", "Counter64"):
        bits = 64 if kind == "Counter64" else 32
        v = gen_uint(rng, bits)
        tag = {"Counter32": B.COUNTER32, "Gauge32": B.GAUGE32, "TimeTicks": B.TIMETICKS,
               "UInteger32": B.UINTEGER32, "Counter64": B.COUNTER64}[kind]
        lz = rng.choice([None, None, False])
        t, py = B.enc_uint(tag, v, form, leading_zero=lz), v
        cls = "%s:%d:%s" % (kind, len(B.uint_content(v, lz)), lz)
    elif kind in ("OctetString", "Opaque", "ObjectDescriptor"):
        b = gen_bytes(rng)
        if rng.random() < 0.35:
            b = gen_wrapped(rng)
        tag = {"OctetString": B.OCTETS, "Opaque": B.OPAQUE, "ObjectDescriptor": B.ODESC}[kind]
        if form is not None and len(b) >= 1 << (8 * form):
            form = None
        t, py = B.tlv(tag, b, form), b
        cls = "%s:%s" % (kind, "0" if not b else "<128" if len(b) < 128 else "<256" if len(b) < 256 else ">=256")
    elif kind == "IpAddress":
        b = bytes(rng.randrange(256) for _ in range(4))
        t, py = B.tlv(B.IPADDR, b, form), ".".join(str(x) for x in b)
    elif kind == "Oid":
        o = gen_oid(rng) if rng.random() < 0.85 else gen_oid_wide(rng)
        t, py = B.enc_oid(o, form), B.oid_text(o)
        cls = "Oid:%s" % ("2.x>=40" if o[1] >= 40 else "usual")
    elif kind == "Bool":
        x = rng.choice([0, 1, 0xFF, rng.randrange(256)])
        t, py = B.tlv(B.BOOL, bytes([x]), form), x != 0
        cls = "Bool:%s" % (x if x in (0, 1, 255) else "other")
    elif kind == "Real":
        c, py, cls = gen_real(rng)
        t = B.tlv(B.REAL, c, form)
        cls = "Real:" + cls
    elif kind == "Null":
        t, py = B.enc_null(), None
    else:
        raise ValueError(kind)
    if form is not None:
        cls += ":L%d" % form
    return {"kind": kind, "tlv": t, "py": py, "cls": cls}


EXC_TLV = {"NoSuchObject": b"\x80\x00", "NoSuchInstance": b"\x81\x00", "EndOfMibView": b"\x82\x00"}


def same_value(expected, got):
    if isinstance(expected, float):
        return float_same(expected, got)
    return type(expected) is type(got) and expected == got


def jv(v):
    """JSON-friendly rendering of a Python value."""
    if isinstance(v, (bytes, bytearray)):
        return {"bytes": bytes(v).hex()}
    if isinstance(v, float):
        return {"float": repr(v)}
    return v
