"""Small end-to-end workload meant to run under valgrind memcheck (C17/C11): every octet handed to
send(2) must be defined.  Prints one line per exchange so the checker can see it ran."""
import random
import sys


def main():
    from vlib import ber_ref as B
    from vlib import driver, rigp
    seed = int(sys.argv[1]) if len(sys.argv) > 1 else 1
    rng = random.Random(seed)
    n = 0
    for cfg in (rigp.Cfg("v2c"), rigp.Cfg("v3", auth="md5", priv="des"), rigp.Cfg("v3", auth="sha1", priv="aes"), rigp.Cfg("v3", auth="sha1"),
                rigp.Cfg("v1")):
        def handler(agent, req):
            return agent.discovery_or(req, lambda q: agent.reply(q, [B.enc_varbind((q.oids() or [(1, 3)])[0], B.enc_int(7))]) if q.ok else None)
        agent = rigp.Agent(handler, users=[cfg.user_keys()]).start()
        drv = driver.Driver(cfg, agent, timeout=20.0).create()
        drv.call("open")
        for k in range(6):
            oids = ["1.3.6.1.2.1.%d.%d" % (rng.randrange(1, 50), j) for j in range(rng.choice([1, 2, 3, 5, 9]))]
            out = drv.call("get_many", oids)
            n += 1
            print("exchange", cfg.key(), len(oids), out[0], flush=True)
        out = drv.call("get_many", ["1.3.6.1.2.1.1.%d.%d.%d.%d.%d" % (j, j, j, j, j) for j in range(600)])
        print("oversize", cfg.key(), out[0], flush=True)
        out = drv.call("get", "1.3.6.1.2.1.1.1.0")
        print("after", cfg.key(), out[0], flush=True)
        agent.stop()
        drv.close()
    print("done", n)


if __name__ == "__main__":
    main()
