"""Independent crypto references (trusted base): RFC 3414 key derivation and
HMAC-96 via hashlib/hmac; pure-Python DES (FIPS 46-3) in CBC mode and AES-128
(FIPS 197) in CFB-128 mode.  self_test() checks published vectors and, when the
openssl CLI is available, cross-checks random inputs against it.
"""
import hashlib
import hmac
import os
import subprocess

MD5, SHA1 = 1, 2
_H = {MD5: hashlib.md5, SHA1: hashlib.sha1}
KEYLEN = {MD5: 16, SHA1: 20}


# ---------------------------------------------------------------- RFC 3414 A.2
def password_to_key(alg, password):
    if len(password) == 0:
        raise ValueError("empty password")
    h = _H[alg]()
    n = 1048576
    reps, rem = divmod(n, len(password))
    # feed in chunks to stay fast for short passwords
    chunk = password * max(1, 4096 // len(password))
    full, part = divmod(reps * len(password), len(chunk))
    for _ in range(full):
        h.update(chunk)
    h.update(chunk[:part])
    h.update(password[:rem])
    return h.digest()


def localize(alg, key, engine_id):
    return _H[alg](key + engine_id + key).digest()


def hmac96(alg, key, msg):
    return hmac.new(key, msg, _H[alg]).digest()[:12]


# ---------------------------------------------------------------- DES
_PC1 = [57, 49, 41, 33, 25, 17, 9, 1, 58, 50, 42, 34, 26, 18, 10, 2, 59, 51, 43, 35, 27, 19, 11, 3, 60, 52, 44, 36,
        63, 55, 47, 39, 31, 23, 15, 7, 62, 54, 46, 38, 30, 22, 14, 6, 61, 53, 45, 37, 29, 21, 13, 5, 28, 20, 12, 4]
_PC2 = [14, 17, 11, 24, 1, 5, 3, 28, 15, 6, 21, 10, 23, 19, 12, 4, 26, 8, 16, 7, 27, 20, 13, 2,
        41, 52, 31, 37, 47, 55, 30, 40, 51, 45, 33, 48, 44, 49, 39, 56, 34, 53, 46, 42, 50, 36, 29, 32]
_SHIFTS = [1, 1, 2, 2, 2, 2, 2, 2, 1, 2, 2, 2, 2, 2, 2, 1]
_IP = [58, 50, 42, 34, 26, 18, 10, 2, 60, 52, 44, 36, 28, 20, 12, 4, 62, 54, 46, 38, 30, 22, 14, 6, 64, 56, 48, 40,
       32, 24, 16, 8, 57, 49, 41, 33, 25, 17, 9, 1, 59, 51, 43, 35, 27, 19, 11, 3, 61, 53, 45, 37, 29, 21, 13, 5,
       63, 55, 47, 39, 31, 23, 15, 7]
_FP = [40, 8, 48, 16, 56, 24, 64, 32, 39, 7, 47, 15, 55, 23, 63, 31, 38, 6, 46, 14, 54, 22, 62, 30, 37, 5, 45, 13,
       53, 21, 61, 29, 36, 4, 44, 12, 52, 20, 60, 28, 35, 3, 43, 11, 51, 19, 59, 27, 34, 2, 42, 10, 50, 18, 58, 26,
       33, 1, 41, 9, 49, 17, 57, 25]
_E = [32, 1, 2, 3, 4, 5, 4, 5, 6, 7, 8, 9, 8, 9, 10, 11, 12, 13, 12, 13, 14, 15, 16, 17, 16, 17, 18, 19, 20, 21,
      20, 21, 22, 23, 24, 25, 24, 25, 26, 27, 28, 29, 28, 29, 30, 31, 32, 1]
_P = [16, 7, 20, 21, 29, 12, 28, 17, 1, 15, 23, 26, 5, 18, 31, 10, 2, 8, 24, 14, 32, 27, 3, 9, 19, 13, 30, 6, 22,
      11, 4, 25]
_S = [
    [14, 4, 13, 1, 2, 15, 11, 8, 3, 10, 6, 12, 5, 9, 0, 7, 0, 15, 7, 4, 14, 2, 13, 1, 10, 6, 12, 11, 9, 5, 3, 8,
     4, 1, 14, 8, 13, 6, 2, 11, 15, 12, 9, 7, 3, 10, 5, 0, 15, 12, 8, 2, 4, 9, 1, 7, 5, 11, 3, 14, 10, 0, 6, 13],
    [15, 1, 8, 14, 6, 11, 3, 4, 9, 7, 2, 13, 12, 0, 5, 10, 3, 13, 4, 7, 15, 2, 8, 14, 12, 0, 1, 10, 6, 9, 11, 5,
     0, 14, 7, 11, 10, 4, 13, 1, 5, 8, 12, 6, 9, 3, 2, 15, 13, 8, 10, 1, 3, 15, 4, 2, 11, 6, 7, 12, 0, 5, 14, 9],
    [10, 0, 9, 14, 6, 3, 15, 5, 1, 13, 12, 7, 11, 4, 2, 8, 13, 7, 0, 9, 3, 4, 6, 10, 2, 8, 5, 14, 12, 11, 15, 1,
     13, 6, 4, 9, 8, 15, 3, 0, 11, 1, 2, 12, 5, 10, 14, 7, 1, 10, 13, 0, 6, 9, 8, 7, 4, 15, 14, 3, 11, 5, 2, 12],
    [7, 13, 14, 3, 0, 6, 9, 10, 1, 2, 8, 5, 11, 12, 4, 15, 13, 8, 11, 5, 6, 15, 0, 3, 4, 7, 2, 12, 1, 10, 14, 9,
     10, 6, 9, 0, 12, 11, 7, 13, 15, 1, 3, 14, 5, 2, 8, 4, 3, 15, 0, 6, 10, 1, 13, 8, 9, 4, 5, 11, 12, 7, 2, 14],
    [2, 12, 4, 1, 7, 10, 11, 6, 8, 5, 3, 15, 13, 0, 14, 9, 14, 11, 2, 12, 4, 7, 13, 1, 5, 0, 15, 10, 3, 9, 8, 6,
     4, 2, 1, 11, 10, 13, 7, 8, 15, 9, 12, 5, 6, 3, 0, 14, 11, 8, 12, 7, 1, 14, 2, 13, 6, 15, 0, 9, 10, 4, 5, 3],
    [12, 1, 10, 15, 9, 2, 6, 8, 0, 13, 3, 4, 14, 7, 5, 11, 10, 15, 4, 2, 7, 12, 9, 5, 6, 1, 13, 14, 0, 11, 3, 8,
     9, 14, 15, 5, 2, 8, 12, 3, 7, 0, 4, 10, 1, 13, 11, 6, 4, 3, 2, 12, 9, 5, 15, 10, 11, 14, 1, 7, 6, 0, 8, 13],
    [4, 11, 2, 14, 15, 0, 8, 13, 3, 12, 9, 7, 5, 10, 6, 1, 13, 0, 11, 7, 4, 9, 1, 10, 14, 3, 5, 12, 2, 15, 8, 6,
     1, 4, 11, 13, 12, 3, 7, 14, 10, 15, 6, 8, 0, 5, 9, 2, 6, 11, 13, 8, 1, 4, 10, 7, 9, 5, 0, 15, 14, 2, 3, 12],
    [13, 2, 8, 4, 6, 15, 11, 1, 10, 9, 3, 14, 5, 0, 12, 7, 1, 15, 13, 8, 10, 3, 7, 4, 12, 5, 6, 11, 0, 14, 9, 2,
     7, 11, 4, 1, 9, 12, 14, 2, 0, 6, 10, 13, 15, 3, 5, 8, 2, 1, 14, 7, 4, 10, 8, 13, 15, 12, 9, 0, 3, 5, 6, 11],
]


def _perm(v, table, nbits):
    r = 0
    for t in table:
        r = (r << 1) | ((v >> (nbits - t)) & 1)
    return r


# Precompute S-box followed by P as 8 tables of 64 entries (indexed by 6-bit chunk)
_SP = []
for _i in range(8):
    row = []
    for _x in range(64):
        r = ((_x >> 4) & 2) | (_x & 1)
        c = (_x >> 1) & 0xF
        s = _S[_i][r * 16 + c]
        row.append(_perm(s << (28 - 4 * _i), _P, 32))
    _SP.append(row)


def des_subkeys(key):
    k = _perm(int.from_bytes(key, "big"), _PC1, 64)
    c, d = k >> 28, k & 0xFFFFFFF
    ks = []
    for s in _SHIFTS:
        c = ((c << s) | (c >> (28 - s))) & 0xFFFFFFF
        d = ((d << s) | (d >> (28 - s))) & 0xFFFFFFF
        ks.append(_perm((c << 28) | d, _PC2, 56))
    return ks


def des_block(block, ks):
    v = _perm(int.from_bytes(block, "big"), _IP, 64)
    l, r = v >> 32, v & 0xFFFFFFFF
    for k in ks:
        e = _perm(r, _E, 32) ^ k
        f = 0
        for i in range(8):
            f |= _SP[i][(e >> (42 - 6 * i)) & 0x3F]
        l, r = r, l ^ f
    return _perm((r << 32) | l, _FP, 64).to_bytes(8, "big")


def des_cbc_encrypt(key, iv, data):
    assert len(key) == 8 and len(iv) == 8 and len(data) % 8 == 0
    ks = des_subkeys(key)
    out, prev = bytearray(), iv
    for i in range(0, len(data), 8):
        x = bytes(a ^ b for a, b in zip(data[i:i + 8], prev))
        prev = des_block(x, ks)
        out += prev
    return bytes(out)


def des_cbc_decrypt(key, iv, data):
    assert len(key) == 8 and len(iv) == 8 and len(data) % 8 == 0
    ks = des_subkeys(key)[::-1]
    out, prev = bytearray(), iv
    for i in range(0, len(data), 8):
        c = data[i:i + 8]
        x = des_block(c, ks)
        out += bytes(a ^ b for a, b in zip(x, prev))
        prev = c
    return bytes(out)


# ---------------------------------------------------------------- AES-128
def _xtime(a):
    a <<= 1
    return (a ^ 0x11B) & 0xFF if a & 0x100 else a


def _gmul(a, b):
    r = 0
    while b:
        if b & 1:
            r ^= a
        a = _xtime(a)
        b >>= 1
    return r


def _make_sbox():
    # multiplicative inverse via exponentiation, then affine transform (FIPS 197 5.1.1)
    sbox = [0] * 256
    for x in range(256):
        inv = 0
        if x:
            # x^254
            inv, p, e = 1, x, 254
            while e:
                if e & 1:
                    inv = _gmul(inv, p)
                p = _gmul(p, p)
                e >>= 1
        y = inv
        r = 0
        for i in range(8):
            bit = ((y >> i) ^ (y >> ((i + 4) % 8)) ^ (y >> ((i + 5) % 8)) ^ (y >> ((i + 6) % 8)) ^ (y >> ((i + 7) % 8)) ^ (0x63 >> i)) & 1
            r |= bit << i
        sbox[x] = r
    return sbox


_SBOX = _make_sbox()
_M2 = [_gmul(x, 2) for x in range(256)]
_M3 = [_gmul(x, 3) for x in range(256)]


def aes128_expand(key):
    assert len(key) == 16
    w = [list(key[i:i + 4]) for i in range(0, 16, 4)]
    rcon = 1
    for i in range(4, 44):
        t = list(w[i - 1])
        if i % 4 == 0:
            t = t[1:] + t[:1]
            t = [_SBOX[b] for b in t]
            t[0] ^= rcon
            rcon = _xtime(rcon)
        w.append([a ^ b for a, b in zip(w[i - 4], t)])
    return [sum(w[4 * r:4 * r + 4], []) for r in range(11)]


def aes128_block(block, rk):
    s = [b ^ k for b, k in zip(block, rk[0])]
    for rnd in range(1, 11):
        s = [_SBOX[b] for b in s]
        # shift rows (state is column-major: s[4*c + r])
        s = [s[4 * ((c + r) % 4) + r] for c in range(4) for r in range(4)]
        if rnd < 10:
            t = []
            for c in range(4):
                a0, a1, a2, a3 = s[4 * c:4 * c + 4]
                t += [_M2[a0] ^ _M3[a1] ^ a2 ^ a3, a0 ^ _M2[a1] ^ _M3[a2] ^ a3,
                      a0 ^ a1 ^ _M2[a2] ^ _M3[a3], _M3[a0] ^ a1 ^ a2 ^ _M2[a3]]
            s = t
        s = [b ^ k for b, k in zip(s, rk[rnd])]
    return bytes(s)


def aes128_cfb_encrypt(key, iv, data):
    rk = aes128_expand(key)
    out, prev = bytearray(), iv
    for i in range(0, len(data), 16):
        ks = aes128_block(prev, rk)
        c = bytes(a ^ b for a, b in zip(data[i:i + 16], ks))
        out += c
        prev = c  # only used again when c is a full block
    return bytes(out)


def aes128_cfb_decrypt(key, iv, data):
    rk = aes128_expand(key)
    out, prev = bytearray(), iv
    for i in range(0, len(data), 16):
        ks = aes128_block(prev, rk)
        c = data[i:i + 16]
        out += bytes(a ^ b for a, b in zip(c, ks))
        prev = c
    return bytes(out)


# ---------------------------------------------------------------- USM privacy (RFC 3414 8, RFC 3826)
DES, AES = 1, 2


def usm_des_encrypt(kul, salt8, plaintext):
    """plaintext must already be padded to a multiple of 8."""
    iv = bytes(a ^ b for a, b in zip(kul[8:16], salt8))
    return des_cbc_encrypt(kul[:8], iv, plaintext)


def usm_des_decrypt(kul, salt8, data):
    iv = bytes(a ^ b for a, b in zip(kul[8:16], salt8))
    return des_cbc_decrypt(kul[:8], iv, data)


def usm_aes_iv(boots, time, salt8):
    return (boots & 0xFFFFFFFF).to_bytes(4, "big") + (time & 0xFFFFFFFF).to_bytes(4, "big") + salt8


def usm_aes_encrypt(kul, boots, time, salt8, plaintext):
    return aes128_cfb_encrypt(kul[:16], usm_aes_iv(boots, time, salt8), plaintext)


def usm_aes_decrypt(kul, boots, time, salt8, data):
    return aes128_cfb_decrypt(kul[:16], usm_aes_iv(boots, time, salt8), data)


# ---------------------------------------------------------------- self test
def _openssl(args, data):
    p = subprocess.run(["openssl"] + args, input=data, stdout=subprocess.PIPE, stderr=subprocess.PIPE, timeout=20)
    if p.returncode != 0:
        return None
    return p.stdout


def self_test(cross=True):
    """Raises AssertionError on mismatch. Returns dict describing what was checked."""
    info = {}
    # RFC 3414 A.3.1 / A.3.2 ("maplesyrup", engine 000000000000000000000002)
    eng = bytes.fromhex("000000000000000000000002")
    k = password_to_key(MD5, b"maplesyrup")
    assert k.hex() == "9faf3283884e92834ebc9847d8edd963"
    assert localize(MD5, k, eng).hex() == "526f5eed9fcce26f8964c2930787d82b"
    k = password_to_key(SHA1, b"maplesyrup")
    assert k.hex() == "9fb5cc0381497b3793528939ff788d5d79145211"
    assert localize(SHA1, k, eng).hex() == "6695febc9288e36282235fc7151f128497b38f3f"
    info["rfc3414_a3"] = True
    # DES: classic vector
    ks = des_subkeys(bytes.fromhex("133457799BBCDFF1"))
    assert des_block(bytes.fromhex("0123456789ABCDEF"), ks).hex() == "85e813540f0ab405"
    assert des_block(bytes.fromhex("85E813540F0AB405"), ks[::-1]).hex() == "0123456789abcdef"
    # FIPS 81 CBC example
    key, iv = bytes.fromhex("0123456789abcdef"), bytes.fromhex("1234567890abcdef")
    pt = b"Now is the time for all "
    ct = des_cbc_encrypt(key, iv, pt)
    assert ct.hex() == "e5c7cdde872bf27c43e934008c389c0f683788499a7c05f6"
    assert des_cbc_decrypt(key, iv, ct) == pt
    info["des_vectors"] = True
    # AES: FIPS 197 C.1
    rk = aes128_expand(bytes.fromhex("000102030405060708090a0b0c0d0e0f"))
    assert aes128_block(bytes.fromhex("00112233445566778899aabbccddeeff"), rk).hex() == "69c4e0d86a7b0430d8cdb78070b4c55a"
    # SP 800-38A F.3.13 CFB128-AES128
    key = bytes.fromhex("2b7e151628aed2a6abf7158809cf4f3c")
    iv = bytes.fromhex("000102030405060708090a0b0c0d0e0f")
    pt = bytes.fromhex("6bc1bee22e409f96e93d7e117393172aae2d8a571e03ac9c9eb76fac45af8e51"
                       "30c81c46a35ce411e5fbc1191a0a52eff69f2445df4f9b17ad2b417be66c3710")
    ct = aes128_cfb_encrypt(key, iv, pt)
    assert ct.hex() == ("3b3fd92eb72dad20333449f8e83cfb4ac8a64537a0b3a93fcde3cdad9f1ce58b"
                        "26751f67a3cbb140b1808cf187a4f4dfc04b05357c5d1c0eeac4c66f9ff7f2e6")
    assert aes128_cfb_decrypt(key, iv, ct) == pt
    info["aes_vectors"] = True
    # HMAC RFC 2202 test case 2 (truncated to 96)
    assert hmac96(MD5, b"Jefe", b"what do ya want for nothing?").hex() == "750c783e6ab0b503eaa86e31"
    assert hmac96(SHA1, b"Jefe", b"what do ya want for nothing?").hex() == "effcdf6ae5eb2fa2d27416d5"
    info["hmac_vectors"] = True
    info["openssl_cross"] = 0
    if cross:
        try:
            for n in (8, 64, 1000):
                key, iv, pt = os.urandom(8), os.urandom(8), os.urandom(n)
                o = _openssl(["enc", "-des-cbc", "-provider", "legacy", "-provider", "default", "-nopad",
                              "-K", key.hex(), "-iv", iv.hex()], pt)
                if o is not None:
                    assert o == des_cbc_encrypt(key, iv, pt), "DES differs from openssl"
                    info["openssl_cross"] += 1
            for n in (1, 16, 33, 1000):
                key, iv, pt = os.urandom(16), os.urandom(16), os.urandom(n)
                o = _openssl(["enc", "-aes-128-cfb", "-K", key.hex(), "-iv", iv.hex()], pt)
                if o is not None:
                    assert o == aes128_cfb_encrypt(key, iv, pt), "AES-CFB differs from openssl"
                    info["openssl_cross"] += 1
        except (OSError, subprocess.TimeoutExpired):
            pass
    return info


if __name__ == "__main__":
    import time
    t = time.time()
    print(self_test())
    print("self-test %.2fs" % (time.time() - t))
    t = time.time()
    des_cbc_encrypt(b"12345678", b"12345678", bytes(8 * 1000))
    print("DES 1000 blocks %.3fs" % (time.time() - t))
    t = time.time()
    aes128_cfb_encrypt(bytes(16), bytes(16), bytes(16 * 1000))
    print("AES 1000 blocks %.3fs" % (time.time() - t))
