"""C05 - A walk returns the whole subtree, in order, once - by GetNext or GetBulk.

A compliant RFC 3416 agent over finite MIBs (vlib.mibagent): exhaustive over
all subsets of a 9-OID universe chosen around the bases, plus random MIBs; every
base kind; max_repetitions x agent-side cap; v1/v2c/v3; sync/async; getnext,
getbulk, fetch.  Oracle: the list must equal the sorted MIB entries strictly
below the base."""
import random
import sys

from vlib import ber_ref as B
from vlib import build, driver, mibagent, model as M, rigp, runner

PID = "C05"
P = (1, 3, 6, 1, 4, 1, 9)
UNIVERSE = [P + (1, 5), P + (2,), P + (2, 1), P + (2, 1, 0), P + (2, 129), P + (2, 16384, 7), P + (20,), P + (3,), (1, 3, 6, 1, 4, 1, 10)]
BASES = [P + (2,), P + (2, 1), P + (5,), P + (20,), (1, 3, 6, 1, 4, 1, 10), P, (1, 3), P + (2, 16384)]


def gen_val(rng, serial):
    k = rng.random()
    if k < 0.6:
        return B.enc_int(serial), serial
    v = M.gen_value(rng, [x for x in M.KINDS if x not in ("Null", "Real")])
    return v["tlv"], v["py"]


def cases_for(tier, rng):
    out = []
    # exhaustive over MIB subsets; bases / parameters cycle so the product is covered across the sweep
    params = []
    for mr in ([1, 2, 3, 5, 12, 20, 50] if tier == "quick" else [1, 2, 3, 4, 5, 6, 7, 8, 9, 10, 11, 12, 20, 50]):
        for cap in ([None, 1, 2, 3, 12] if tier == "quick" else [None, 1, 2, 3, 4, 5, 6, 7, 8, 9, 10, 11, 12]):
            params.append((mr, cap))
    rng.shuffle(params)
    k = 0
    for mask in range(1 << len(UNIVERSE)):
        mib = [UNIVERSE[i] for i in range(len(UNIVERSE)) if mask >> i & 1]
        for bi in range(len(BASES)):
            mr, cap = params[k % len(params)]
            out.append({"mib": mib, "base": BASES[bi], "op": ["getnext", "getbulk", "fetch"][k % 3], "mr": mr, "cap": cap})
            k += 1
    # random MIBs
    for _ in range(1200 if tier == "quick" else 20000):
        root = P + (rng.randrange(1, 50),)
        n = rng.choice([0, 1, 2, 5, 20, 80])
        mib = set()
        while len(mib) < n:
            o = (root if rng.random() < 0.85 else P) + tuple(M.gen_arc(rng) if rng.random() < 0.35 else rng.randrange(0, 5) for _ in range(rng.randint(1, 4)))
            mib.add(o)
        mib = sorted(mib)
        base = rng.choice([root, root[:-1], root + (rng.randrange(5),), (mib[rng.randrange(len(mib))][:-1] if mib else root), (1, 3, 6)])
        mr, cap = rng.choice(params)
        out.append({"mib": mib, "base": base, "op": rng.choice(["getnext", "getbulk", "fetch"]), "mr": mr, "cap": cap})
    # subtree roots whose last arc is 127, 16383, 2097151, 268435455 (all-ones base-128 digits), with neighbours on both sides;
    # and tables whose instance OIDs are longer than 128 BER octets
    for arc in (127, 16383, 2097151, 268435455, 128, 16384):
        for _ in range(4 if tier == "quick" else 30):
            root = P + (arc,)
            mib = set()
            for _ in range(rng.choice([3, 6, 12])):
                mib.add(root + tuple(rng.randrange(0, 4) for _ in range(rng.randint(1, 3))))
            mib.add(P + (arc + 1, 0))
            mib.add(P + (arc + 1, 5, 1))
            mib.add(P[:-1] + (P[-1] + 1, 0))
            mib.add(P + (arc - 1, 7))
            mr, cap = rng.choice(params)
            out.append({"mib": sorted(mib), "base": root, "op": rng.choice(["getnext", "getbulk", "fetch"]), "mr": mr, "cap": cap})
    for _ in range(12 if tier == "quick" else 200):
        root = P + (rng.randrange(1, 50),)
        idx = tuple(rng.randrange(128, 16384) for _ in range(rng.choice([63, 64, 65, 70, 100])))
        mib = set(root + (1,) + idx[:-1] + (idx[-1] + k,) for k in range(rng.choice([2, 4, 6])))
        mib.add(root + (2, 1))
        mr, cap = rng.choice(params)
        out.append({"mib": sorted(mib), "base": root, "op": rng.choice(["getnext", "getbulk", "fetch"]), "mr": mr, "cap": cap})
    # histories on one session (each needs a short real timeout, so they are few)
    extra = []
    for k, c in enumerate(out):
        if k % 23 == 0 and len(c["mib"]) >= 3:
            extra.append(dict(c, history="abandon"))
        if k % (97 if tier == "quick" else 41) == 1 and len(c["mib"]) >= 2:
            extra.append(dict(c, history="retry"))
        if k % 13 == 5 and len(c["mib"]) >= 3:
            # other calls on the same session in the middle of the walk: a get(), a whole nested walk
            extra.append(dict(c, history="mix", mix_after=rng.choice([1, 1, 2, 3]),
                              mix=rng.choice([["get"], ["walk"], ["get", "walk"], ["walk", "get"]])))
        if k % 11 == 2 and len(c["mib"]) >= 3:
            # one walk object consumed in several loops (next() to peek, for ... break, for again)
            extra.append(dict(c, history="parts", parts=[rng.choice([1, 2, 3]), rng.choice([0, 1, 2, 4, 7])]))
    return out + extra


def worker(job):
    import gufo.snmp  # noqa: F401
    prog = runner.Progress(job.get("_progress"))
    rng = random.Random(job["seed"])
    cfg = rigp.Cfg.from_json(job["cfg"])
    res = {"walks": 0, "entries": 0, "requests": 0, "bad": [], "inconclusive": [], "classes": {}}
    st = {}

    def handler(agent, req):
        def f(req):
            if not req.ok:
                st["agent_err"] = req.err
                return None
            st["n"] += 1
            if st.get("drop_at") == st["n"]:
                st["dropped"] = True
                return None  # this datagram is lost; the caller retries next() on the same iterator
            return mibagent.answer(st["mib"], req, agent, st["cap"])
        return agent.discovery_or(req, f)
    agent = rigp.Agent(handler, users=[cfg.user_keys()]).start()
    drvs = {}

    def get_drv(allow_bulk, mr):
        key = (allow_bulk, mr)
        if key not in drvs:
            d = driver.Driver(cfg, agent, timeout=0.4, allow_bulk=allow_bulk, max_repetitions=mr).create()
            st.update(mib=mibagent.Mib([]), cap=None, n=0)
            d.call("open")
            drvs[key] = d
        return drvs[key]
    for ci, c in enumerate(job["cases"]):
        prog.mark({"cfg": cfg.key(), "case": ci})
        serial = ci * 1000
        ents = []
        for o in c["mib"]:
            serial += 1
            t, py = gen_val(rng, serial)
            ents.append((tuple(o), t, py))
        mib = mibagent.Mib(ents)
        op = c["op"]
        if op == "getbulk" and cfg.version == "v1":
            op = "getnext"
        allow_bulk = True if op != "fetch" else rng.random() < 0.7
        drv = get_drv(allow_bulk, c["mr"])
        st.update(mib=mib, cap=c["cap"], n=0, drop_at=None, dropped=False)
        base = tuple(c["base"])
        args = (B.oid_text(base),) if op != "getbulk" else (B.oid_text(base), c["mr"])
        hist = c.get("history")
        if hist == "abandon":
            # an earlier walk on the same session is left after one item (break): it must not leak into this one
            other = rng.choice([(1, 3, 6, 1, 4, 1, 9), (1, 3, 6, 1, 4, 1, 9, 2), (1, 3)])
            drv.call(op, *((B.oid_text(other),) + args[1:]), limit=1)
            if rng.random() < 0.5:
                drv.call(op, *args, limit=1)   # the same base, abandoned, then walked again
            st["n"] = 0
        call_op = op
        if hist == "retry":
            st["drop_at"] = rng.choice([1, 2, 2, 3])
            call_op = op + "_retry"
        if hist == "parts":
            drv.part_sizes = c["parts"]
            call_op = op + "_parts"
        if hist == "mix":
            some = B.oid_text(mib.keys[0]) if mib.keys else "1.3.6.1.2.1.1.1.0"
            inner = rng.choice(["getnext", "getbulk" if cfg.version != "v1" else "getnext", "fetch"])
            drv.mix_after = c["mix_after"]
            drv.mix_ops = [("get", some) if m == "get" else (inner, B.oid_text(base)) for m in c["mix"]]
            call_op = op + "_mix"
        out = drv.call(call_op, *args, limit=400)
        res["walks"] += 1
        res["requests"] += st["n"]
        want = [(B.oid_text(e[0]), e[2]) for e in mib.subtree(base)]
        res["entries"] += len(want)
        cls = "%s%s:%s:%s" % (op, ("+" + hist) if hist else "", "empty" if not want else "nonempty", "bulk" if (op == "getbulk" or (op == "fetch" and allow_bulk and cfg.version != "v1")) else "next")
        res["classes"][cls] = res["classes"].get(cls, 0) + 1
        if "agent_err" in st:
            res["inconclusive"].append("agent could not parse: %s" % st.pop("agent_err"))
            continue
        if out[0] == "exc" and out[1]["cls"] == "TimeoutError":
            # load - or a walk that cannot complete?  The agent answers every datagram it gets here (except the one a
            # retry history drops on purpose), so: two more attempts on fresh sessions with a 1.5 s timeout; three timeouts
            # in a row with every received datagram answered are a verdict, anything less is inconclusive.
            for d in drvs.values():
                d.close()
            drvs.clear()
            again = 0
            if hist != "retry":
                for _ in range(2):
                    d2 = driver.Driver(cfg, agent, timeout=1.5, allow_bulk=allow_bulk, max_repetitions=c["mr"]).create()
                    st.update(mib=mibagent.Mib([]), cap=None, n=0, drop_at=None)
                    d2.call("open")
                    st.update(mib=mib, cap=c["cap"], n=0, drop_at=None, dropped=False)
                    for attr in ("part_sizes", "mix_after", "mix_ops"):
                        if hasattr(drv, attr):
                            setattr(d2, attr, getattr(drv, attr))
                    n_rx0 = len([1 for k_, t_, _ in agent.log if k_ == "rx"])
                    n_tx0 = len([1 for k_, t_, _ in agent.log if k_ == "tx"])
                    o2 = d2.call(call_op, *args, limit=400)
                    d2.close()
                    agent.wait_idle(timeout=3)
                    n_rx = len([1 for k_, t_, _ in agent.log if k_ == "rx"]) - n_rx0
                    n_tx = len([1 for k_, t_, _ in agent.log if k_ == "tx"]) - n_tx0
                    if o2[0] == "exc" and o2[1]["cls"] == "TimeoutError" and n_rx == n_tx and n_rx > 0:
                        again += 1
                    else:
                        break
            if again == 2 and len(res["bad"]) < 60:
                res["bad"].append({"cfgkey": cfg.key(), "op": op, "base": B.oid_text(base), "mr": c["mr"], "cap": c["cap"], "mib": [B.oid_text(o) for o in c["mib"]][:40],
                                   "want": [w[0] for w in want][:40], "got": "TimeoutError on 3 sessions out of 3 (1.5 s) although the agent answered every datagram it received; history %s %s"
                                   % (hist, c.get("mix") or c.get("parts") or ""), "sig": "never-completes"})
            else:
                res["inconclusive"].append("timeout (load)%s" % (" in a retry history" if hist == "retry" else ""))
            continue
        if len(res.setdefault("samples", [])) < 2 and ci % 40 == 3:
            res["samples"].append({"cfg": cfg.key(), "op": op, "base": B.oid_text(base), "max_repetitions": c["mr"], "agent_cap": c["cap"],
                                   "mib": [B.oid_text(o) for o in c["mib"]][:12], "requests": st["n"],
                                   "returned": [g[0] if isinstance(g, tuple) else g for g in (out[1] if out[0] == "ok" else [repr(out)[:80]])][:12]})
        good = out[0] == "ok" and len(out[1]) == len(want) and all(g[0] == w[0] and M.same_value(w[1], g[1]) for g, w in zip(out[1], want))
        if hist == "mix" and good and len(want) >= c["mix_after"]:
            # the inner calls: the nested walk of the same base returns the same subtree
            for (kind, a), r in zip(drv.mix_ops, getattr(drv, "mix_log", [])):
                if kind != "get" and not (r[0] == "ok" and len(r[1]) == len(want) and all(g[0] == w[0] and M.same_value(w[1], g[1]) for g, w in zip(r[1], want))):
                    good = False
                    out = ("ok", ["(nested %s returned %s)" % (kind, repr(r)[:200])])
        if not good and len(res["bad"]) < 60:
            got = out[1] if out[0] == "ok" else out
            res["bad"].append({"cfgkey": cfg.key(), "op": op, "base": B.oid_text(base), "mr": c["mr"], "cap": c["cap"],
                               "mib": [B.oid_text(o) for o in c["mib"]][:40],
                               "want": [w[0] for w in want][:40], "got": repr([g[0] if isinstance(g, tuple) else g for g in got] if out[0] == "ok" else got)[:600],
                               "sig": "missing" if out[0] == "ok" and len(out[1]) < len(want) else "extra" if out[0] == "ok" and len(out[1]) > len(want) else
                               "exception" if out[0] != "ok" else "different"})
    agent.stop()
    return res


def main():
    a = runner.main_args()
    chk = runner.Check(PID, "exploration", a.tier, a.seed)
    chk.rule = ("MIBs: all 512 subsets of a 9-OID universe around the bases (before the subtree, the base itself, depth 1-3 below it, siblings "
                "sharing a byte prefix: ...2 vs ...20, ...2.1 vs ...2.129, multi-octet arcs, after), plus random MIBs of 0..80 entries incl. the "
                "empty MIB; bases: existing subtree, leaf, absent, the last subtree (agent answers endOfMibView, or v1 noSuchName), ancestors; "
                "max_repetitions 1..12,20,50 x agent-side cap none,1..12; v1 (getnext, fetch), v2c, v3 noAuth/auth/DES/AES; sync and async; "
                "getnext, getbulk, fetch (allow_bulk on/off); values of every non-NULL type. Oracle: list == [(oid, value) for oid in "
                "sorted(MIB) if base is a proper prefix of oid]. distinct = (op, empty/non-empty subtree, PDU kind) x configuration.")
    chk.assumptions = ["MIB values are never NULL (NULL is the v1 end-of-MIB convention)", "the reference agent vlib.mibagent implements RFC 3416 4.2.2/4.2.3"]
    rng = random.Random(a.seed)
    cases = cases_for(a.tier, rng)
    rng.shuffle(cases)
    cfgs = rigp.base_cfgs(("sync", "async"))
    nj = 24
    jobs = [{"seed": a.seed * 31 + j, "cfg": cfgs[j % len(cfgs)].to_json(), "cases": cases[j::nj]} for j in range(nj)]
    # the same (MIB, base) also goes to a second configuration: equality across versions/clients follows from equality with the model
    jobs += [{"seed": a.seed * 31 + 100 + j, "cfg": cfgs[(j + 5) % len(cfgs)].to_json(), "cases": cases[j::nj][:len(cases) // (nj * 3)]} for j in range(nj)]
    outs = runner.run_workers("checks.c05", "worker", jobs, variant="rel", timeout=3000)
    st = {"walks": 0, "entries": 0, "requests": 0}
    for o in outs:
        res = o["result"]
        cfgkey = rigp.Cfg.from_json(o["job"]["cfg"]).key()
        if res is None:
            if o["rc"] == "timeout":
                chk.inconc("worker timeout at %s" % o["progress"])
            else:
                chk.violation("abort:rigp", "worker died rc=%s at %s: %s" % (o["rc"], o["progress"], o["stderr"][-300:]), {})
            continue
        if "harness_error" in res:
            raise runner.HarnessError(res["harness_error"])
        for x in res["inconclusive"][:2]:
            chk.inconc(x)
        for k in st:
            st[k] += res[k]
        for x in res.get("samples", [])[:1]:
            chk.sample(x, limit=5)
        for c in res["classes"]:
            chk.distinct.add("%s|%s" % (cfgkey, c))
        for b in res["bad"]:
            chk.violation("%s:%s:%s" % (b["sig"], b["op"], b["cfgkey"].split("/")[0]),
                          "[%s] %s(%s, max_rep %s, agent cap %s) over MIB %s returned %s ; the subtree is %s" % (
                              b["cfgkey"], b["op"], b["base"], b["mr"], b["cap"], b["mib"][:12], b["got"][:300], b["want"][:12]), b)
    chk.seen(st["walks"])
    chk.extra.update(st)
    chk.extra["exhaustive"] = True
    chk.extra["exhaustive_part"] = "all 512 subsets of the 9-OID universe"
    chk.floor("walks", st["walks"], 4000)
    sys.exit(chk.finish())


if __name__ == "__main__":
    try:
        main()
    except (runner.HarnessError, build.BuildError) as e:
        print("HARNESS-ERROR: %s" % e)
        sys.exit(2)
