"""C01 - No datagram can crash the client: the receive path is total.

Rig R: decode_total under rel / dbg (overflow sanitizer) / asan / miri.
Rig P: hostile replies that pass the outer checks, for every K x O x client."""
import json
import os
import random
import sys
import tempfile
import time

from vlib import build, corpus, driver, hostile, rigp, runner
from vlib import ber_ref as B

PID = "C01"
OPS = ["get", "get_many", "getnext1", "getbulk1", "refresh", "getnext2", "getbulk2"]   # *2: the hostile reply is the SECOND one of a walk


# ------------------------------------------------------------------ Rig P worker
def worker(job):
    import gufo.snmp  # noqa: F401  (the staged artefact)
    prog = runner.Progress(job.get("_progress"))
    cfg = rigp.Cfg.from_json(job["cfg"])
    specs = job["specs"]
    ops = job["ops"]
    res = {"cases": 0, "outcomes": {}, "bad": [], "skipped_na": 0, "harness": []}
    state = {"spec": None}

    def handler(agent, req):
        def f(req):
            if not req.ok:
                agent.errors.append("agent could not parse request: %s %s" % (req.err, req.raw.hex()))
                return None
            spec = state["spec"]
            vb = B.enc_varbind((req.oids() or [hostile.OID])[0] + (1,), B.enc_int(424242))
            valid = agent.reply(req, [vb])
            if state.get("second"):
                # a walk: first an honest entry two levels below the base, then the hostile reply, then the end
                state["nreq"] = state.get("nreq", 0) + 1
                if state["nreq"] == 1:
                    return agent.reply(req, [B.enc_varbind(hostile.OID + (1, 2), B.enc_int(1))])
                if state["nreq"] > 2:
                    return agent.reply(req, [B.enc_varbind(req.oids()[0], b"\x82\x00")]) if req.oids() else valid
                valid = agent.reply(req, [B.enc_varbind(req.oids()[0], b"\x82\x00")]) if req.oids() else valid
            if spec is None:
                return valid
            h = hostile.realize(agent, req, spec)
            if isinstance(h, list):
                state["sent"] = b"".join(h[:1])
                return h + [valid]
            state["sent"] = h
            if h is None:
                return valid
            return [h, valid]
        if state.get("raw_mode"):
            return f(req)
        return agent.discovery_or(req, f)

    agent = rigp.Agent(handler, users=[cfg.user_keys()], rng=random.Random(job["seed"])).start()
    drv = None

    def fresh():
        nonlocal drv
        if drv:
            drv.close()
        state["spec"] = None
        state["raw_mode"] = False
        drv = driver.Driver(cfg, agent, timeout=0.4).create()
        r = drv.call("open")
        if r[0] != "ok":
            res["harness"].append("open failed: %r" % (r,))
        return drv

    fresh()
    oid = "1.3.6.1.2.1.1.3.0"
    for op in ops:
        if op == "refresh" and cfg.version != "v3":
            continue
        for spec in specs:
            if spec["t"] == "v3" and cfg.version != "v3":
                res["skipped_na"] += 1
                continue
            state["spec"], state["sent"] = spec, None
            state["second"], state["nreq"] = op.endswith("2"), 0
            # refresh probes are answered by discovery_or unless raw_mode is on
            state["raw_mode"] = op == "refresh"
            if op == "refresh":
                drv.s._to_refresh = True  # make the public refresh() actually probe
            prog.mark({"cfg": cfg.key(), "op": op, "spec": spec["label"]})
            args = {"get": (oid,), "get_many": ([oid, oid + ".1"],), "getnext1": (oid,), "getbulk1": (oid,), "refresh": ()}.get(op, (oid,))
            out = drv.call(op[:-1] if op.endswith("2") else op, *args, **({"limit": 20} if op.endswith("2") else {}))
            dur = drv.last_duration
            state["spec"] = None
            state["raw_mode"] = False
            if state["sent"] is None:
                res["skipped_na"] += 1
                continue
            res["cases"] += 1
            if out[0] == "ok":
                cls = "result"
            else:
                c = driver.classify_exc(out[1], op)
                cls = "%s:%s" % (c, out[1]["cls"])
            key = "%s|%s" % (op, cls)
            res["outcomes"][key] = res["outcomes"].get(key, 0) + 1
            if len(res.setdefault("samples", [])) < 2 and res["cases"] % 211 == 17:
                res["samples"].append({"cfg": cfg.key(), "op": op, "hostile": spec["label"], "datagram": state["sent"].hex()[:120], "outcome": cls})
            bad = None
            if out[0] == "exc" and driver.classify_exc(out[1], op) in ("panic", "undocumented"):
                bad = "raised %s (%s): %s" % (out[1]["cls"], "/".join(out[1]["mro"][:3]), out[1]["msg"])
            elif dur > 0.4 * 3 + 2.0:
                bad = "call took %.2fs (timeout 0.4s, 1 hostile + 1 valid datagram)" % dur
            if bad:
                if len(res["bad"]) < 400:
                    res["bad"].append({"cfg": cfg.to_json(), "cfgkey": cfg.key(), "op": op, "spec": spec,
                                       "datagram": state["sent"].hex(), "what": bad,
                                       "exc": out[1] if out[0] == "exc" else None})
                fresh()  # do not trust a session after a panic
            elif out[0] == "exc":
                # a decode error leaves the valid reply queued; it is skipped later by request-id
                pass
    agent.stop()
    res["agent_errors"] = agent.errors[:5]
    return res


def panic_sig(what, exc):
    """Signature for Rig P violations: panic location if present in the message."""
    import re
    m = re.search(r"(src/[\w/]+\.rs:\d+)", (exc or {}).get("msg", "") or "")
    return m.group(1) if m else what[:60]


# ------------------------------------------------------------------ main
def rig_r(chk, tier, seed, corpus_path):
    plans = []
    if tier == "quick":
        plans = [("rel", "full", 16, 40000, 1), ("dbg", "full", 16, 3000, 3), ("asan", "lite", 16, 2000, 4)]
    else:
        plans = [("rel", "full", 16, 1500000, 1), ("dbg", "full", 16, 60000, 1), ("asan", "full", 16, 30000, 1)]
    total = {"cases": 0, "calls": 0, "deep": 0}
    per_variant = {}
    for variant, mode, nsh, nrand, div in plans:
        build.build(variant)

        def one(sh):
            t = time.time()
            try:
                p = runner.run_bin(variant, "decode_total", [corpus_path, seed, sh, nsh, nrand, mode, div], timeout=3000)
            except Exception as e:  # timeout etc.
                return sh, None, "harness: %r" % e, time.time() - t
            return sh, p, None, time.time() - t
        rs = runner.parallel(one, range(nsh))
        vstat = {"cases": 0, "calls": 0, "deep": 0, "panics": 0, "asan_reports": 0}
        for sh, p, err, dt in rs:
            if p is None:
                chk.inconc("%s shard %d: %s" % (variant, sh, err))
                continue
            if variant == "asan":
                reps = runner.asan_reports(p.stderr.decode(errors="replace"))
                for kind, frame in reps:
                    vstat["asan_reports"] += 1
                    chk.violation("asan:%s:%s" % (kind, frame), "AddressSanitizer %s at %s (decode_total shard %d seed %d)" % (kind, frame, sh, seed),
                                  {"rig": "R", "variant": variant, "bin": "decode_total", "args": [seed, sh, nsh, nrand, mode, div],
                                   "stderr": p.stderr.decode(errors="replace")[-3000:]})
            if p.returncode != 0 and not p.stdout.strip():
                if variant != "asan" or not runner.asan_reports(p.stderr.decode(errors="replace")):
                    chk.violation("abort:%s" % variant, "decode_total %s shard %d died rc=%s: %s" % (
                        variant, sh, p.returncode, p.stderr.decode(errors="replace")[-400:]),
                        {"rig": "R", "variant": variant, "args": [seed, sh, nsh, nrand, mode, div]})
                continue
            try:
                d = json.loads(p.stdout.decode())
            except ValueError:
                chk.inconc("%s shard %d: unparsable output" % (variant, sh))
                continue
            for k in ("cases", "calls", "deep"):
                vstat[k] += d[k]
                total[k] += d[k]
            for dec, n in list(d["ok"].items()) + list(d["err"].items()):
                chk.distinct.add("R:%s:%s" % (variant, dec))
            for pn in d["panics"]:
                vstat["panics"] += pn["count"]
                chk.violation("panic:%s" % pn["loc"].replace("/repo/", ""),
                              "Rust panic at %s via decoder %s in %s build: %s ; input %s" % (
                                  pn["loc"], pn["decoder"], variant, pn["msg"][:160], pn["witness"][:200]),
                              {"rig": "R", "variant": variant, "decoder": pn["decoder"], "input": pn["witness"], "loc": pn["loc"]})
        per_variant[variant] = vstat
    chk.seen(total["cases"])
    chk.extra["rig_r"] = per_variant
    chk.floor("rig_r_cases", total["cases"], 100000)
    chk.floor("rig_r_deep", total["deep"], 5000)
    return total


def rig_r_miri(chk, tier, seed, corpus_path):
    nsh = 16
    div = 1
    nrand = 40 if tier == "quick" else 1500

    def one(sh):
        try:
            p = runner.run_miri("decode_total", [corpus_path, seed, sh, nsh, nrand, "pick", div], timeout=1500 if tier == "quick" else 7000)
        except Exception as e:
            return sh, None, repr(e)
        return sh, p, None
    # build once (serial) so shards do not race on the target dir
    runner.run_miri("decode_total", [corpus_path, seed, 0, 1, 0, "pick", 1], timeout=900)
    rs = runner.parallel(one, range(nsh))
    st = {"cases": 0, "calls": 0, "ub_reports": 0}
    for sh, p, err in rs:
        if p is None:
            chk.inconc("miri shard %d: %s" % (sh, err))
            continue
        se = p.stderr.decode(errors="replace")
        if "Undefined Behavior" in se or "error: unsupported operation" in se or "data race" in se.lower():
            import re
            m = re.search(r"error: (.*)", se)
            fr = re.search(r"(/repo/src/[\w/]+\.rs:\d+)", se)
            st["ub_reports"] += 1
            chk.violation("miri:%s" % (fr.group(1) if fr else "?"), "Miri: %s (%s) shard %d" % (m.group(1)[:200] if m else "?", fr.group(1) if fr else "?", sh),
                          {"rig": "R", "variant": "miri", "args": [seed, sh, nsh, nrand, "lite", div], "stderr": se[-3000:]})
            continue
        try:
            d = json.loads(p.stdout.decode().strip().split("\n")[-1])
        except (ValueError, IndexError):
            chk.inconc("miri shard %d: no summary (rc=%s) %s" % (sh, p.returncode, se[-300:]))
            continue
        st["cases"] += d["cases"]
        st["calls"] += d["calls"]
        for pn in d["panics"]:
            chk.violation("panic:%s" % pn["loc"].replace("/repo/", ""), "Rust panic at %s (miri) input %s" % (pn["loc"], pn["witness"][:200]),
                          {"rig": "R", "variant": "miri", "input": pn["witness"]})
    chk.seen(st["cases"])
    chk.distinct.add("R:miri")
    chk.extra["rig_r_miri"] = st
    chk.floor("miri_cases", st["cases"], 100)


def rig_fuzz(chk, tier, seed, items):
    """Coverage-guided complement (libFuzzer + ASan), bounded runs, thorough tier."""
    st = {}
    seeds = [b for _, b in items]
    for target, runs, ml in (("fuzz_decode", 4000000, 1200), ("fuzz_decrypt", 2000000, 1200)):
        r = runner.run_fuzz(target, runs, seed, seeds=seeds if target == "fuzz_decode" else [b"\x02\x08" + b for b in seeds[:40]] + [b"\x03\x08" + b for b in seeds[:40]], max_len=ml)
        st[target] = {"execs": r["execs"], "crashes": len(r["crashes"])}
        chk.seen(r["execs"])
        chk.distinct.add("fuzz:" + target)
        for w in r["inconclusive"]:
            chk.inconc(w)
        for sig, art, se in r["crashes"]:
            chk.violation(sig, "libFuzzer target %s crashed on input %s : %s" % (target, art[:200], se[-300:].replace("\n", " | ")),
                          {"rig": "fuzz", "target": target, "input": art})
    chk.extra["fuzz"] = st


def rig_p(chk, tier, seed):
    specs = hostile.all_specs(quick=(tier == "quick"))
    rng = random.Random(seed)
    variants = ["rel"] if tier == "quick" else ["rel", "dbg", "asan"]
    cfgs = rigp.base_cfgs(clients=("sync", "async"))
    pstat = {}
    for variant in variants:
        jobs = []
        for cfg in cfgs:
            # split ops over jobs so that 16 cores are used
            for op in OPS:
                if op == "refresh" and cfg.version != "v3":
                    continue
                sp = specs
                if op.endswith("2"):
                    if cfg.version == "v1" and op == "getbulk2":
                        continue
                    sp = [s for s in specs if s["t"] in ("vbs", "pdu") and rng.random() < (0.5 if tier == "quick" else 1.0)]
                elif tier == "quick":
                    # every structured spec, but a seeded 1/3 sample of the byte mutants per (cfg, op)
                    sp = [s for s in specs if s["t"] != "mut" or rng.random() < 0.34]
                elif variant != "rel":
                    sp = [s for s in specs if s["t"] != "mut" or rng.random() < 0.25]
                jobs.append({"cfg": cfg.to_json(), "ops": [op], "specs": sp, "seed": seed})
        outs = runner.run_workers("checks.c01", "worker", jobs, variant=variant, timeout=1500)
        st = {"cases": 0, "outcomes": {}, "bad": 0, "dead_workers": 0}
        for o in outs:
            job, res = o["job"], o["result"]
            cfgkey = rigp.Cfg.from_json(job["cfg"]).key()
            if res is None or "harness_error" in (res or {}):
                if o["rc"] == "timeout":
                    chk.inconc("worker timeout (suspected hang) at %s [%s %s]" % (o["progress"], variant, cfgkey))
                elif res and "harness_error" in res:
                    raise runner.HarnessError(res["harness_error"])
                else:
                    st["dead_workers"] += 1
                    sig = "abort:rigp"
                    asan = runner.asan_reports(o["stderr"]) if variant == "asan" else []
                    if asan:
                        sig = "asan:%s:%s" % asan[0]
                    chk.violation(sig, "worker process died (rc=%s) in %s build while handling %s ; stderr tail: %s" % (
                        o["rc"], variant, o["progress"], o["stderr"][-600:]),
                        {"rig": "P", "variant": variant, "job": {k: v for k, v in job.items() if k != "specs"}, "progress": o["progress"]})
                continue
            st["cases"] += res["cases"]
            for x in res.get("samples", [])[:1]:
                chk.sample(x, limit=10)
            for k, v in res["outcomes"].items():
                st["outcomes"][k] = st["outcomes"].get(k, 0) + v
                chk.distinct.add("P:%s:%s:%s" % (variant, cfgkey, k))
            if res["agent_errors"] or res["harness"]:
                chk.inconc("harness trouble in %s: %s %s" % (cfgkey, res["agent_errors"][:1], res["harness"][:1]))
            for b in res["bad"]:
                st["bad"] += 1
                chk.violation("rigp:%s" % panic_sig(b["what"], b["exc"]),
                              "%s %s on hostile reply '%s' [%s build]: %s" % (b["cfgkey"], b["op"], b["spec"]["label"], variant, b["what"]),
                              {"rig": "P", "variant": variant, **b})
                chk.sample({"cfg": b["cfgkey"], "op": b["op"], "hostile": b["spec"]["label"], "datagram": b["datagram"][:120], "outcome": b["what"]})
        chk.seen(st["cases"])
        pstat[variant] = st
    chk.extra["rig_p"] = pstat
    chk.floor("rig_p_exchanges", sum(v["cases"] for v in pstat.values()), 20000)
    for s in specs[:3] + specs[400:402]:
        chk.sample({"hostile_spec": s["label"], "type": s["t"]})


def main():
    a = runner.main_args()
    chk = runner.Check(PID, "exploration", a.tier, a.seed)
    chk.rule = ("Rig R: every corpus message x {truncate at every offset, every octet <- 24-value alphabet/+-1/bit flips, delete/insert, "
                "every TLV: 36 tags, 15 length re-encodings, delete/duplicate/empty/swap, high-tag forms}, exhaustive strings of length 0-2 "
                "(+3,4 over alphabet), seeded random and spliced strings up to 4080 octets; each fed to v1/v2c/v3 message, SnmpValue, PDU "
                "decoders and to DES/AES decrypt (as ciphertext with salt lengths 0..17, and as plaintext encrypted with third-party crates) "
                "under catch_unwind, in rel, dbg (overflow checks), asan and miri builds. Rig P: hostile replies passing the outer checks "
                "x {v1,v2c,v3 noAuth/auth/DES/AES} x {get,get_many,getnext,getbulk,refresh} x {sync,async}. distinct = (build, decoder) and "
                "(build, configuration, op, outcome class) combinations observed.")
    chk.assumptions = ["reference BER encoder/decoder and crypto in /verif/vlib are correct (self-tested against published vectors and openssl)",
                       "loopback UDP does not drop bursts of <= 2 datagrams",
                       "RuntimeError from get_many (documented in its docstring) is counted as documented-elsewhere, not as a violation"]
    from vlib import crypto_ref
    crypto_ref.self_test(cross=False)
    cdir = os.path.join(build.CACHE, "stage")
    os.makedirs(cdir, exist_ok=True)
    cpath = os.path.join(cdir, "corpus-%d-%d.txt" % (a.seed, os.getpid()))
    items = corpus.write(cpath, a.seed)
    chk.sample({"corpus_item": items[0][0], "hex": items[0][1].hex()})
    chk.extra["corpus_messages"] = len(items)
    try:
        stage_fns = [("r", lambda: rig_r(chk, a.tier, a.seed, cpath)), ("miri", lambda: rig_r_miri(chk, a.tier, a.seed, cpath)),
                     ("p", lambda: rig_p(chk, a.tier, a.seed))]
        if a.tier == "thorough":
            stage_fns.append(("fuzz", lambda: rig_fuzz(chk, a.tier, a.seed, items)))
        stages = os.environ.get("VERIF_STAGES", "r,miri,p,fuzz").split(",")
        for name, fn in stage_fns:
            if name in stages:
                t = time.time()
                fn()
                chk.extra["stage_%s_wall_s" % name] = round(time.time() - t, 1)
    finally:
        try:
            os.unlink(cpath)
        except OSError:
            pass
    sys.exit(chk.finish())


if __name__ == "__main__":
    try:
        main()
    except (runner.HarnessError, build.BuildError) as e:
        print("HARNESS-ERROR: %s" % e)
        sys.exit(2)
