"""C15 - Everything the library encodes, it decodes back unchanged and minimally.

Rig R `roundtrip`: INTEGER exhaustively for 1..3 content octets, +-2^16
neighbourhoods of every +-2^(8k-1), +-2^(8k), random i64; OIDs; NULL / OCTET
STRING fields of every length; random v1/v2c/v3 request messages.  Oracles: an
independent minimal two's-complement / DER encoder and strict TLV walker
(rharness/src/common.rs); decode(encode(x)) == x with nothing left over.
Builds: rel, dbg (overflow monitor), reduced sets under ASan and Miri."""
import json
import sys

from vlib import build, runner

PID = "C15"


def run_plan(chk, variant, plan, seed, st):
    """plan: list of (mode, nshards, n)."""
    jobs = []
    for e in plan:
        mode, nsh, n = e[:3]
        for sh in (e[3] if len(e) > 3 else range(nsh)):
            jobs.append((mode, sh, nsh, n))

    def one(j):
        mode, sh, nsh, n = j
        try:
            if variant == "miri":
                return j, runner.run_miri("roundtrip", [mode, seed, sh, nsh, n], timeout=3000)
            return j, runner.run_bin(variant, "roundtrip", [mode, seed, sh, nsh, n], timeout=3000)
        except Exception as e:
            return j, e
    if variant == "miri":
        runner.run_miri("roundtrip", ["octets", 0, 4000, 4077, 0], timeout=900)
    else:
        build.build(variant)
    for j, p in runner.parallel(one, jobs):
        mode = j[0]
        if isinstance(p, Exception):
            chk.inconc("%s %s: %r" % (variant, j, p))
            continue
        se = p.stderr.decode(errors="replace")
        if variant == "miri" and ("Undefined Behavior" in se or "data race" in se.lower()):
            chk.violation("miri:%s" % mode, "Miri report in roundtrip %s: %s" % (mode, se[-500:]), {"args": j})
            continue
        for kind, frame in (runner.asan_reports(se) if variant == "asan" else []):
            chk.violation("asan:%s:%s" % (kind, frame), "ASan %s at %s in roundtrip %s" % (kind, frame, mode), {"args": j})
        try:
            d = json.loads(p.stdout.decode().strip().split("\n")[-1])
        except (ValueError, IndexError):
            if variant == "asan" and runner.asan_reports(se):
                continue
            chk.violation("abort:roundtrip", "roundtrip %s %s died rc=%s: %s" % (variant, j, p.returncode, se[-300:]), {"args": j})
            continue
        st.setdefault(variant, {}).setdefault(mode, 0)
        st[variant][mode] += d["cases"]
        chk.seen(d["cases"])
        for c in d["classes"]:
            chk.distinct.add("%s:%s" % (variant if variant in ("miri",) else "n", c))
        for x in d.get("samples", [])[:1]:
            chk.sample({"build": variant, "mode": mode, "observed": x}, limit=6)
        for b in d["bad"]:
            sig, msg = b.split("|", 1)
            chk.violation(sig, "[%s] %s" % (variant, msg), {"variant": variant, "args": ["roundtrip"] + list(j)})
        if d["nbad"] and not d["bad"]:
            chk.violation("roundtrip", "%d failures" % d["nbad"], {"args": j})


def main():
    a = runner.main_args()
    chk = runner.Check(PID, "exploration", a.tier, a.seed)
    chk.rule = ("INTEGER: every value of 1..3 content octets (-2^23..2^23-1, 16.7M values, exhaustive), +-N around +-2^(8k-1) and +-2^(8k) for "
                "k=1..8, i64::MIN/MAX, random values of every width; OIDs from the valid-OID generator (arcs at base-128 boundaries up to "
                "2^32-1, 2..40 arcs); NULL; OCTET STRING fields of every length 0..4076; random v1/v2c/v3 Get/GetNext/GetBulk messages that "
                "fit the buffer. distinct = (type, content width / size class) classes.")
    chk.assumptions = ["independent encoder int_content()/der_tlv() and strict_tlv()/strict_tree() in rharness/src/common.rs"]
    st = {}
    q = a.tier == "quick"
    run_plan(chk, "rel", [("ints-exh", 16, 0), ("ints-edge", 16, 3000 if q else 65536), ("ints-rand", 16, 100000 if q else 1000000),
                          ("oids", 16, 20000 if q else 150000), ("octets", 4, 0), ("msgs", 16, 5000 if q else 50000),
                          ("priv", 16, 1500 if q else 30000)], a.seed, st)
    run_plan(chk, "dbg", [("ints-edge", 16, 300 if q else 65536), ("ints-rand", 16, 20000 if q else 300000), ("oids", 8, 5000 if q else 50000),
                          ("octets", 4, 0), ("msgs", 16, 1000 if q else 20000), ("priv", 8, 300 if q else 5000)] + ([] if q else [("ints-exh", 16, 0)]), a.seed, st)
    run_plan(chk, "asan", [("ints-edge", 8, 100 if q else 2000), ("ints-rand", 8, 5000 if q else 100000), ("oids", 8, 2000 if q else 30000),
                           ("octets", 8, 0), ("msgs", 8, 500 if q else 10000), ("priv", 8, 200 if q else 4000)], a.seed, st)
    run_plan(chk, "miri", [("ints-edge", 4, 1 if q else 8), ("ints-rand", 2, 60 if q else 600), ("oids", 2, 30 if q else 300),
                           ("octets", 1000, 0, [1, 127] if q else [1, 55, 127, 128, 255, 256, 999]), ("msgs", 4, 12 if q else 120),
                           ("priv", 2, 6 if q else 60)], a.seed, st)
    chk.extra["cases_by_build_and_mode"] = st
    chk.extra["exhaustive_part"] = "INTEGER -2^23..2^23-1 (every value of 1..3 content octets)"
    chk.floor("exhaustive_ints", st.get("rel", {}).get("ints-exh", 0), 1 << 24)
    sys.exit(chk.finish())


if __name__ == "__main__":
    try:
        main()
    except (runner.HarnessError, build.BuildError) as e:
        print("HARNESS-ERROR: %s" % e)
        sys.exit(2)
