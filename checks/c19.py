"""C19 - The rate limiter never lets the request rate exceed rps.

(a) the real RPSPolicer.get_timeout driven with generated call-time sequences;
(b) exhaustive phase space for small intervals with the real implementation as
transition function and invariants asserted on the hooked state (_prev);
(c) rate-limited sync and async sessions under a virtual clock, arrivals stamped
by the agent; (d) constructor validation."""
import math
import random
import sys

from vlib import ber_ref as B
from vlib import build, mibagent, rigp, runner

PID = "C19"
NS = 1_000_000_000


def window_ok(rel, d, K=None):
    """all i<j: rel[j]-rel[i] > (j-i-1)*d. Returns first offending (i, j) or None."""
    n = len(rel)
    K = K or n
    for k in range(1, min(K, n - 1) + 1):
        lim = (k - 1) * d
        for i in range(0, n - k):
            if not rel[i + k] - rel[i] > lim:
                return (i, i + k)
    return None


def seq_worker(job):
    from gufo.snmp.policer import RPSPolicer
    rng = random.Random(job["seed"])
    res = {"sequences": 0, "calls": 0, "bad": [], "classes": {}}

    def bad(sig, msg):
        if len(res["bad"]) < 30:
            res["bad"].append({"sig": sig, "msg": msg})
    for rps in job["rps"]:
        p0 = RPSPolicer(rps)
        d = p0._delta
        for s in range(job["nseq"]):
            p = RPSPolicer(rps)
            n = rng.choice([50, 200, 1000]) if job["long"] == 0 else job["long"]
            ts = rng.randrange(0, 10 ** 12)
            rel, prevs = [], []
            gapset = [0, 1, d - 1, d, d + 1, 2 * d, int(7.3 * d), 10 ** 6 * d]
            mode = rng.choice(["mixed", "burst", "slow", "edge"])
            for i in range(n):
                delay = p.get_timeout(ts)
                res["calls"] += 1
                if delay is not None and not (0 < delay <= d):
                    bad("delay-range", "rps=%r: delay %r outside (0, %d] at call %d" % (rps, delay, d, i))
                r = ts + (delay or 0)
                rel.append(r)
                prevs.append(p._prev)
                # hooked-state invariants
                if i and not (prevs[-1] >= prevs[-2] + d):
                    bad("slot-advance", "rps=%r: _prev advanced by %d < interval %d at call %d" % (rps, prevs[-1] - prevs[-2], d, i))
                if not (p._prev <= r < p._prev + d):
                    bad("slot-phase", "rps=%r: release %d not within [_prev, _prev+d) = [%d, %d)" % (rps, r, p._prev, p._prev + d))
                g = {"mixed": rng.choice(gapset + [rng.randrange(0, 3 * d + 1)]), "burst": rng.choice([0, 0, 0, 1]),
                     "slow": rng.randrange(d, 5 * d + 1), "edge": rng.choice([d - 1, d, d + 1, 0])}[mode]
                ts = r + max(0, g)
            if len(res.setdefault("samples", [])) < 1:
                res["samples"].append({"rps": rps, "interval_ns": d, "mode": mode, "first_releases_ns": rel[:6]})
            w = window_ok(rel, d, K=None if n <= 1000 else 64)
            if w:
                i, j = w
                bad("window", "rps=%r mode %s: releases %d..%d span %d ns <= %d x interval %d" % (rps, mode, i, j, rel[j] - rel[i], j - i - 1, d))
            res["sequences"] += 1
            res["classes"]["%r:%s" % (rps, mode)] = 1
    return res


def phase_worker(job):
    from gufo.snmp.policer import RPSPolicer
    res = {"transitions": 0, "bad": [], "states": 0}
    for d in job["ds"]:
        rps = NS / d
        p0 = RPSPolicer(rps)
        if p0._delta != d:
            # find an rps whose interval is exactly d
            rps = None
            for cand in (NS / d, NS / (d + 0.5), NS / (d + 0.25), NS / (d + 0.75)):
                if RPSPolicer(cand)._delta == d:
                    rps = cand
                    break
            if rps is None:
                res["bad"].append({"sig": "harness", "msg": "no rps gives interval %d" % d})
                continue
        P = 10 ** 9 + 17
        for phi in range(0, d):
            res["states"] += 1
            for gap in range(0, 3 * d + 1):
                p = RPSPolicer(rps)
                p._prev = P
                ts = P + phi + gap
                delay = p.get_timeout(ts)
                res["transitions"] += 1
                r = ts + (delay or 0)
                ok = (delay is None or 0 < delay <= d) and p._prev >= P + d and p._prev <= r < p._prev + d
                # the new phase is again a state of the same space
                ok = ok and 0 <= r - p._prev < d
                if not ok and len(res["bad"]) < 20:
                    res["bad"].append({"sig": "phase:d%d" % d, "msg": "interval %d, phase %d, gap %d: delay %r, _prev %d -> %d, release %d" % (d, phi, gap, delay, P, p._prev, r)})
    return res


def ctor_worker(job):
    from gufo.snmp.policer import RPSPolicer
    res = {"cases": 0, "bad": []}
    for v in (0, -1, -0.0, 0.0, 1e9 + 1, 1e12, math.inf, -math.inf, math.nan, -1e-9, 2e9):
        res["cases"] += 1
        try:
            p = RPSPolicer(v)
            res["bad"].append({"sig": "ctor", "msg": "RPSPolicer(%r) was accepted (interval %r ns)" % (v, p._delta)})
        except ValueError:
            pass
        except BaseException as e:
            res["bad"].append({"sig": "ctor-exc", "msg": "RPSPolicer(%r) raised %r instead of ValueError" % (v, e)})
    for v in (0.1, 1, 3, 7, 10, 1000, 999999.9, 1e9, 0.001):
        res["cases"] += 1
        try:
            p = RPSPolicer(v)
            if p._delta != int(NS / v):
                res["bad"].append({"sig": "ctor-delta", "msg": "RPSPolicer(%r) interval %r" % (v, p._delta)})
        except BaseException as e:
            res["bad"].append({"sig": "ctor-refused", "msg": "RPSPolicer(%r) refused: %r" % (v, e)})
    return res


def session_worker(job):
    import asyncio
    import gufo.snmp  # noqa: F401
    from gufo.snmp import policer
    from vlib import driver
    rng = random.Random(job["seed"])
    cfg = rigp.Cfg.from_json(job["cfg"])
    res = {"requests": 0, "bad": [], "sessions": 0, "ops": {}, "inconclusive": []}
    clock = {"now": 10 ** 12}

    def v_perf():
        clock["now"] += rng.randrange(0, 2000)  # a little execution time
        return clock["now"]

    def v_sleep(x):
        clock["now"] += int(round(x * NS))

    async def v_asleep(x, *a, **k):
        clock["now"] += int(round(x * NS))
    policer.perf_counter_ns = v_perf
    policer.sleep = v_sleep
    real_asleep = asyncio.sleep
    asyncio.sleep = v_asleep
    arrivals = []
    mib = mibagent.Mib([((1, 3, 6, 1, 4, 1, 9, k), B.enc_int(k), k) for k in range(1, 40)])

    mute = {"on": False}

    def handler(agent, req):
        def f(req):
            if not req.ok:
                return None
            arrivals.append(clock["now"])
            if mute["on"]:
                return None
            return mibagent.answer(mib, req, agent, 5)
        if mute.get("all"):
            return None
        return agent.discovery_or(req, f)
    agent = rigp.Agent(handler, users=[cfg.user_keys()]).start()
    for k, rps in enumerate(job["rps"]):
        d = int(NS / rps)
        # three documented ways to make a session rate-limited; an explicit policer overrides limit_rps
        how = ["limit_rps", "policer+limit_rps", "policer"][(k + job["seed"]) % 3]

        def rate_kw():
            if how == "limit_rps":
                return {"limit_rps": rps}
            if how == "policer":
                return {"policer": policer.RPSPolicer(rps)}
            return {"policer": policer.RPSPolicer(rps), "limit_rps": rps * rng.choice([20, 1000])}
        res["ops"]["how:" + how] = 1
        drv = driver.Driver(cfg, agent, timeout=2.0, **rate_kw()).create()
        # refresh()/open is not rate-limited by the statement's API list; start counting after it
        if cfg.version == "v3" and (k + job["seed"]) % 2 == 0:
            # the session's very first exchange fails (agent unreachable: the context entry times out) and the same
            # session object is entered again, as a reconnect loop does: it is still a rate-limited session
            drv.close()
            drv = driver.Driver(cfg, agent, timeout=0.3, **rate_kw()).create()
            mute["all"] = True
            o = drv.call("open")
            mute["all"] = False
            res["ops"]["how:first-open-lost"] = 1
            if o[0] != "exc":
                res["inconclusive"].append("the first open was expected to time out: %r" % (o,))
        drv.call("open")
        arrivals.clear()
        for i in range(job["n"]):
            op = rng.choice(["get", "get_many", "getnext", "getbulk", "fetch"])
            if op == "getbulk" and cfg.version == "v1":
                op = "getnext"
            res["ops"][op] = res["ops"].get(op, 0) + 1
            if op == "get":
                out = drv.call("get", "1.3.6.1.4.1.9.3")
            elif op == "get_many":
                out = drv.call("get_many", ["1.3.6.1.4.1.9.3", "1.3.6.1.4.1.9.4", "1.3.6.1.4.1.9.5"][:rng.choice([1, 1, 2, 3])])
            else:
                out = drv.call(op, "1.3.6.1.4.1.9", limit=rng.choice([3, 12, 100]))
            if out[0] == "exc" and out[1]["cls"] == "TimeoutError":
                res["inconclusive"].append("timeout (load)")
                break
            clock["now"] += rng.choice([0, 0, 1, d // 2, d - 1, d, d + 1, 3 * d, rng.randrange(0, 2 * d + 1)])
        def judge(rel, label):
            # rounding: each virtual sleep converts ns -> float seconds -> ns (<= 1 ns each)
            n = len(rel)
            for k in range(1, min(n - 1, 40) + 1):
                for i in range(0, n - k):
                    if not rel[i + k] - rel[i] > (k - 1) * d - (k + 1):
                        if len(res["bad"]) < 20:
                            res["bad"].append({"sig": "arrivals:%s%s" % (cfg.client, label), "msg": "[%s rps=%r via %s%s] agent saw requests %d..%d within %d ns; %d intervals of %d ns are required" % (
                                cfg.key(), rps, how, label, i, i + k, rel[i + k] - rel[i], k - 1, d)})
                        return
        res["requests"] += len(arrivals)
        res["sessions"] += 1
        judge(list(arrivals), "")
        # a phase with a silent agent: every request times out (real 30 ms); the virtual clock only moves by
        # what the policer sleeps - requests must still be spaced by the interval
        drv.close()
        drv = driver.Driver(cfg, agent, timeout=0.03, **rate_kw()).create()
        drv.call("open")
        arrivals.clear()
        mute["on"] = True
        for i in range(8):
            drv.call(rng.choice(["get", "getnext", "fetch"]), "1.3.6.1.4.1.9.3")
        import time as _t
        _t.sleep(0.05)
        mute["on"] = False
        res["ops"]["silent_phase"] = res["ops"].get("silent_phase", 0) + len(arrivals)
        res["requests"] += len(arrivals)
        judge(list(arrivals), " silent-agent phase")
        drv.close()
    asyncio.sleep = real_asleep
    agent.stop()
    return res


def main():
    a = runner.main_args()
    chk = runner.Check(PID, "exploration", a.tier, a.seed)
    chk.rule = ("(a) call-time sequences of 50..1000 (and 10^5) calls with gaps from {0, 1 ns, d-1, d, d+1, 2d, 7.3d, 10^6 d, random} in four modes, "
                "for rps in {0.1, 1, 3, 7, 10, 1000, 999999.9, 1e9}: every delay None or in (0, d]; for all i<j release_j - release_i > "
                "(j-i-1) d; invariants on hooked _prev. (b) exhaustive phase space for d in {1,2,3,7,10,64} ns: every (phase in [0,d), gap in "
                "0..3d) transition executed on the real object: _prev' >= _prev + d and _prev' <= release' < _prev' + d (which imply the window "
                "bound by induction). (c) rate-limited sync and async sessions (v1, v2c, v3) under a virtual clock (policer.sleep, "
                "policer.perf_counter_ns, asyncio.sleep patched): agent-observed arrival times obey the same bound for get/get_many/getnext/"
                "getbulk/fetch. (d) constructor: non-positive, NaN, inf and > 1e9 rates raise ValueError. distinct = (rps, mode) classes.")
    chk.assumptions = ["translation invariance of get_timeout (it only uses differences ts - _prev)", "virtual sleeps round to 1 ns"]
    q = a.tier == "quick"
    rps_all = [0.1, 1, 3, 7, 10, 1000, 999999.9, 1e9]
    jobs = [{"seed": a.seed * 13 + i, "rps": [rps_all[i % 8]], "nseq": 40 if q else 600, "long": 0} for i in range(16)]
    jobs += [{"seed": a.seed * 13 + 100 + i, "rps": [rps_all[i]], "nseq": 1, "long": 20000 if q else 100000} for i in range(8)]
    st = {}
    outs = runner.run_workers("checks.c19", "seq_worker", jobs, variant="rel", timeout=3000)
    st["sequences"] = st["calls"] = 0
    for o in outs:
        res = o["result"]
        if res is None or "harness_error" in (res or {}):
            raise runner.HarnessError("seq worker failed: %s" % (o["stderr"][-300:] if res is None else res["harness_error"]))
        st["sequences"] += res["sequences"]
        st["calls"] += res["calls"]
        for x in res.get("samples", [])[:1]:
            chk.sample(x, limit=4)
        for c in res["classes"]:
            chk.distinct.add(c)
        for b in res["bad"]:
            chk.violation(b["sig"], b["msg"], b)
    chk.seen(st["calls"])
    ds = [1, 2, 3, 7, 10, 64]
    outs = runner.run_workers("checks.c19", "phase_worker", [{"ds": [d]} for d in ds], variant="rel", timeout=3000)
    st["phase_states"] = st["phase_transitions"] = 0
    for o in outs:
        res = o["result"]
        if res is None or "harness_error" in (res or {}):
            raise runner.HarnessError("phase worker failed: %s" % (o["stderr"][-300:] if res is None else res["harness_error"]))
        st["phase_states"] += res["states"]
        st["phase_transitions"] += res["transitions"]
        for b in res["bad"]:
            chk.violation(b["sig"], b["msg"], b)
    chk.seen(st["phase_transitions"])
    outs = runner.run_workers("checks.c19", "ctor_worker", [{}], variant="rel", timeout=600)
    for o in outs:
        res = o["result"]
        if res is None or "harness_error" in (res or {}):
            raise runner.HarnessError("ctor worker failed: %s" % (o["stderr"][-300:] if res is None else res["harness_error"]))
        st["ctor_cases"] = res["cases"]
        for b in res["bad"]:
            chk.violation(b["sig"], b["msg"], b)
    cfgs = [rigp.Cfg("v2c", client="sync"), rigp.Cfg("v2c", client="async"), rigp.Cfg("v1", client="sync"), rigp.Cfg("v1", client="async"),
            rigp.Cfg("v3", auth="sha1", client="sync"), rigp.Cfg("v3", auth="md5", priv="aes", client="async")]
    sj = [{"seed": a.seed * 7 + i, "cfg": c.to_json(), "rps": [rng_rps for rng_rps in ([10, 1000, 7.5, 0.75] if q else [1, 3, 7.5, 10, 1000, 123456.7, 0.75, 0.5, 0.1])],
           "n": 60 if q else 600} for i, c in enumerate(cfgs)]
    outs = runner.run_workers("checks.c19", "session_worker", sj, variant="rel", timeout=3000)
    st["session_requests"] = 0
    for o in outs:
        res = o["result"]
        if res is None:
            chk.violation("abort:rigp", "session worker died rc=%s: %s" % (o["rc"], o["stderr"][-300:]), {})
            continue
        if "harness_error" in res:
            raise runner.HarnessError(res["harness_error"])
        for x in res["inconclusive"][:2]:
            chk.inconc(x)
        st["session_requests"] += res["requests"]
        for k in res["ops"]:
            chk.distinct.add("session:%s:%s" % (rigp.Cfg.from_json(o["job"]["cfg"]).key(), k))
        for b in res["bad"]:
            chk.violation(b["sig"], b["msg"], b)
    chk.seen(st["session_requests"])
    chk.extra.update(st)
    chk.extra["exhaustive"] = True
    chk.extra["exhaustive_part"] = "phase space (phase, gap) for intervals 1,2,3,7,10,64 ns"
    chk.extra["states"] = st["phase_states"]
    chk.extra["transitions"] = st["phase_transitions"]
    chk.floor("session_requests", st["session_requests"], 1000)
    sys.exit(chk.finish())


if __name__ == "__main__":
    try:
        main()
    except (runner.HarnessError, build.BuildError) as e:
        print("HARNESS-ERROR: %s" % e)
        sys.exit(2)
