"""C14 - Privacy salts never repeat and nothing confidential goes in clear.

Rig P: per key installation, long sequences of requests (send halves, so no
reply is needed) interleaved with receives of encrypted replies, timeouts and
boots changes, then set_keys() and again; history checker over the datagrams.
Rig R: salt counters seeded just below 2^32 / 2^64 through the verif hook."""
import random
import sys

from vlib import ber_ref as B
from vlib import build, crypto_ref as C, model as M, rigp, runner

PID = "C14"


def worker(job):
    import gufo.snmp  # noqa: F401
    from gufo.snmp._fast import GetIter
    prog = runner.Progress(job.get("_progress"))
    rng = random.Random(job["seed"])
    cfg = rigp.Cfg.from_json(job["cfg"])
    res = {"msgs": 0, "installations": 0, "bad": [], "boots_changes": 0, "receives": 0, "salts_distinct": 0}
    state = {"reply": False, "rng": random.Random(job["seed"] + 5)}

    def handler(agent, req):
        if not req.ok:
            return None
        if req.m["usm"]["engine_id"] == b"":
            return agent.report(req, rigp.REPORT_UNKNOWN_ENGINE, flags=0, mac="empty", encrypt=False)
        if req.pdu["tag"] == B.PDU_GET and not req.pdu["varbinds"] and state["reply"]:
            return agent.report(req, rigp.REPORT_NOT_IN_TIME, flags=req.m["flags"] & 1, encrypt=False)
        if not state["reply"]:
            return None
        vb = B.enc_varbind((req.oids() or [(1, 3)])[0], B.enc_int(1))
        dg = agent.reply(req, [vb])
        out = []
        if state.get("last_reply") is not None and state["rng"].random() < 0.5:
            # a late duplicate of an EARLIER encrypted reply, damaged in transit (one ciphertext octet flipped; the datagram itself stays
            # well-formed), arrives first: it is dropped - and whatever the client did while looking at it must not touch the
            # salt counter of its own next message
            old = bytearray(state["last_reply"])
            old[-1 - state["rng"].randrange(0, 24)] ^= state["rng"].choice([0x41, 0x80, 0xFF])
            out.append(bytes(old))
            res["damaged_duplicates"] = res.get("damaged_duplicates", 0) + 1
        state["last_reply"] = dg
        return out + [dg]

    agent = rigp.Agent(handler, users=[cfg.user_keys()], rng=random.Random(job["seed"]), boots=rng.randrange(1, 1000), etime=5).start()
    sess = rigp.make_session(cfg, agent, timeout=1.5)
    sock = sess._sock
    state["reply"] = True
    if not cfg.engine_given and job["seed"] % 2:
        # the first discovery probe is lost; the context entry is retried on the same session
        state["reply"] = False
        sess._timeout = 0.2
        try:
            rigp.make_session  # (keep linters quiet)
            short = rigp.make_session(cfg, agent, timeout=0.2)
            sess, sock = short, short._sock
            sess.__enter__()
        except (TimeoutError, BlockingIOError):
            pass
        state["reply"] = True
        agent.reset_log()
    sess.__enter__()  # discovery (if needed) + time synchronisation, keys installed
    state["reply"] = False
    # everything sent once keys are installed belongs to the first installation: the time-sync probe too
    pre = [r for r in agent.reqs if not (r.m and r.version == 3 and r.m["usm"]["engine_id"] == b"")]
    user = rigp.make_user(cfg, agent.engine_id)

    def bad(sig, msg, raw=None):
        if len(res["bad"]) < 50:
            res["bad"].append({"sig": sig, "msg": msg, "cfgkey": cfg.key(), "datagram": raw.hex() if raw else None})

    for inst in range(job["installations"]):
        if inst > 0:
            sock.set_keys(user.name, user.get_auth_alg(), user.get_auth_key(), user.get_priv_alg(), user.get_priv_key())
            if inst == 1 and hasattr(sock, "verif_set_salt"):
                # hook (feature 'verif'): start this installation three messages before the counter wraps, so that the
                # all-ones and the all-zero salt values are really sent by the session, not only produced by encrypt()
                sock.verif_set_salt((1 << 64) - 3 if cfg.priv == "aes" else (1 << 32) - 3)
                res["wrap_installations"] = res.get("wrap_installations", 0) + 1
        res["installations"] += 1
        prev = None
        seen = set()
        n0 = len(agent.reqs)
        sent_oids = []
        refused_at = []   # indices (into sent_oids) before which a refused request may have consumed a salt value
        for i in range(job["n"]):
            if i % 200 == 0:
                prog.mark({"cfg": cfg.key(), "inst": inst, "i": i})
            if i in (job["n"] // 3, job["n"] // 3 + 7) or (i % 97 == 41 and i > 10):
                # a request that does not fit the buffer (SnmpEncodeError, nothing sent): the key installation must survive it.
                # Sizes sweep the boundary too: requests whose scoped PDU still fits the cipher's buffer while the whole
                # message no longer fits the datagram buffer are refused at a later point than grossly oversized ones.
                nn = 700 if i in (job["n"] // 3, job["n"] // 3 + 7) else rng.randrange(150, 200)
                try:
                    sock.send_get_many(["1.3.6.1.4.1.%d.%d.%d.%d.%d.%d" % (k, k, k, k, k, k) for k in range(200, 200 + nn)])
                    if nn == 700:
                        bad("oversize", "an oversized request was accepted")
                    sent_oids.append(None)   # it fitted: an ordinary message of this installation
                except Exception as e:
                    refused_at.append(len(sent_oids))
                    if "EncodeError" not in type(e).__name__:
                        bad("oversize", "an oversized request raised %r" % e)
            if i in (2 * job["n"] // 3, 2 * job["n"] // 3 + 5):
                # a key change that is refused (unusable privacy key: empty pass phrase / localized key of the wrong size) raises
                # and must leave the installation as it was: same key, salt counter carrying on
                # (master keys of any size are accepted by design - the Python layer pads them - so no such event for them)
                kt = user.get_priv_alg() & 0xC0
                junk = b"" if kt == 0 else b"\x01" * 5
                if kt != 0x40:
                    try:
                        sock.set_keys(user.name, user.get_auth_alg(), user.get_auth_key(), user.get_priv_alg(), junk)
                        bad("set_keys", "set_keys with an unusable privacy key (%r) was accepted" % junk)
                    except Exception:
                        res["refused_set_keys"] = res.get("refused_set_keys", 0) + 1
            r = rng.random()
            oid = M.gen_oid(rng, 8, 12)
            state["reply"] = r < 0.08
            sent_oids.append(oid if r < 0.95 or r < 0.10 else None)
            try:
                if r < 0.08:
                    # full exchange: the reply (possibly with new boots) is decrypted in the private buffer
                    if rng.random() < 0.5:
                        agent.boots = rng.randrange(0, 2 ** 31)
                        res["boots_changes"] += 1
                    agent.time = rng.randrange(0, 2 ** 31)
                    sock.get(B.oid_text(oid))
                    res["receives"] += 1
                elif r < 0.083:
                    try:
                        sock.get(B.oid_text(oid))  # unanswered -> timeout
                    except (BlockingIOError, TimeoutError):
                        pass
                elif r < 0.45:
                    sock.send_get(B.oid_text(oid))
                elif r < 0.65:
                    sock.send_get_many([B.oid_text(oid), B.oid_text(M.gen_oid(rng, 8, 12))])
                elif r < 0.8:
                    sock.send_get_next(GetIter(B.oid_text(oid)))
                elif r < 0.95:
                    sock.send_get_bulk(GetIter(B.oid_text(oid), rng.choice([1, 10, 50])))
                else:
                    sock.send_refresh()
                    oid = None
            except (BlockingIOError, TimeoutError) as e:
                res.setdefault("inconclusive", []).append("exchange %d timed out after 1.5 s (load): %r" % (i, e))
            except BaseException as e:
                bad("exception", "request %d raised %r" % (i, e))
        # wait for the agent thread to drain its socket
        import time
        t_end = time.time() + 10
        while len(agent.reqs) - n0 < len(sent_oids) and time.time() < t_end:  # (sent_oids: this installation's sends)
            time.sleep(0.01)
        reqs = agent.reqs[n0:]
        if inst == 0:
            reqs, sent_oids = pre + reqs, [None] * len(pre) + sent_oids
            refused_at = [x + len(pre) for x in refused_at]
        if len(reqs) != len(sent_oids):
            res.setdefault("inconclusive", []).append("%d datagrams sent, %d seen by the agent (socket buffer overflow?)" % (len(sent_oids), len(reqs)))
            continue
        for i, (rq, oid) in enumerate(zip(reqs, sent_oids)):
            res["msgs"] += 1
            if rq.m is None or rq.version != 3:
                bad("strict", "datagram %d is not a well-formed v3 message: %s" % (i, rq.err), rq.raw)
                continue
            usm = rq.m["usm"]
            salt = usm["priv_params"]
            if not rq.m["flags"] & 2:
                bad("priv_flag", "datagram %d: priv flag clear" % i, rq.raw)
            if "enc" not in rq.m:
                bad("clear", "datagram %d: msgData is not an OCTET STRING (scoped PDU in clear)" % i, rq.raw)
                continue
            if len(salt) != 8:
                bad("salt_len", "datagram %d: msgPrivacyParameters is %d octets" % (i, len(salt)), rq.raw)
                continue
            if salt in seen:
                bad("salt_repeat", "datagram %d: salt %s repeats within one key installation" % (i, salt.hex()), rq.raw)
            seen.add(salt)
            if cfg.priv == "des":
                if salt[:4] != (usm["boots"] & 0xFFFFFFFF).to_bytes(4, "big"):
                    bad("salt_boots", "datagram %d: DES salt %s does not start with engine boots %d of the same header" % (i, salt.hex(), usm["boots"]), rq.raw)
                ctr, mod = int.from_bytes(salt[4:], "big"), 1 << 32
            else:
                ctr, mod = int.from_bytes(salt, "big"), 1 << 64
            # a request refused with SnmpEncodeError just before this datagram may have consumed a counter value
            # (it never became a message): the step is 1 plus at most that many
            slack = refused_at.count(i)
            if prev is not None and not (1 <= (ctr - prev) % mod <= 1 + slack):
                bad("salt_step", "datagram %d: salt counter %d after %d (must advance by one%s)" % (
                    i, ctr, prev, "; %d refused request(s) in between" % slack if slack else ""), rq.raw)
            prev = ctr
            if not rq.decrypt_ok:
                bad("decrypt", "datagram %d does not decrypt under the reference cipher: %s" % (i, rq.err), rq.raw)
            # nothing of the scoped PDU in clear
            if oid is not None:
                needle = B.oid_content(oid)
                if needle in rq.raw:
                    bad("leak", "datagram %d: the request OID %s appears in clear" % (i, B.oid_text(oid)), rq.raw)
            if rq.plaintext and rq.plaintext[:16] in rq.raw:
                bad("leak", "datagram %d: the first 16 octets of the scoped PDU appear in clear" % i, rq.raw)
        res["salts_distinct"] += len(seen)
        if len(res.setdefault("samples", [])) < 2:
            res["samples"].append({"cfg": cfg.key(), "installation": inst, "messages": len(reqs),
                                   "first_salts": [r.m["usm"]["priv_params"].hex() for r in reqs[:4] if r.m and r.version == 3],
                                   "boots_in_headers": [r.m["usm"]["boots"] for r in reqs[:4] if r.m and r.version == 3]})
    agent.stop()
    return res


def rig_r(chk, tier, seed):
    st = {}
    for variant in ("rel", "dbg"):
        build.build(variant)
        lines, meta = [], []
        rng = random.Random(seed)
        for alg, start, mod in ((1, (1 << 32) - 3, 1 << 32), (2, (1 << 64) - 3, 1 << 64), (1, 0xFFFFFFFF, 1 << 32), (2, (1 << 64) - 1, 1 << 64),
                                (1, rng.randrange(1 << 32), 1 << 32), (2, rng.randrange(1 << 64), 1 << 64)):
            slot = "s%d" % len(meta)
            lines.append("priv_new\t%s\t%d\t%s" % (slot, alg, bytes(range(16)).hex()))
            lines.append("priv_salt\t%s\t%d" % (slot, start))
            for k in range(8):
                lines.append("priv_enc\t%s\t%d\t%d\t-\tget\t%d\t0\t0\t%s" % (slot, 7, 9, k, B.oid_content((1, 3, 6, 1, k)).hex()))
            meta.append((alg, start, mod))
        p, out = runner.ldrive(variant, lines)
        if len(out) != len(lines):
            chk.violation("rigr:died", "ldrive died: %s" % p.stderr.decode(errors="replace")[-300:], {})
            continue
        i = 0
        n = 0
        for alg, start, mod in meta:
            i += 2
            prev = None
            for k in range(8):
                o = out[i]
                i += 1
                if o[0] != "ok":
                    chk.violation("wrap:%s" % o[0], "encrypt near the counter wrap (start %d) [%s]: %s" % (start, variant, "\t".join(o)[:200]),
                                  {"variant": variant, "alg": alg, "start": start})
                    break
                salt = bytes.fromhex(o[1])
                ctr = int.from_bytes(salt[4:] if alg == 1 else salt, "big")
                want = (start + k) % mod
                n += 1
                if ctr != want:
                    chk.violation("wrap:step", "salt counter %d, expected %d (start %d, message %d) [%s]" % (ctr, want, start, k, variant),
                                  {"variant": variant, "alg": alg, "start": start})
                    break
            chk.distinct.add("R:wrap:%d:%d" % (alg, start % 7))
        st[variant] = {"encryptions_across_wrap": n}
        chk.seen(n)
    chk.extra["rig_r_wrap"] = st


def main():
    a = runner.main_args()
    chk = runner.Check(PID, "exploration", a.tier, a.seed)
    chk.rule = ("per key installation a sequence of get/get_many/getnext/getbulk/refresh send halves (no reply needed) interleaved with full "
                "exchanges whose replies change boots/time, and unanswered requests; then set_keys() and again. History checker: "
                "msgPrivacyParameters 8 octets, pairwise distinct per installation; DES: first four = boots of the same header, last four = "
                "previous+1 mod 2^32; AES: previous+1 mod 2^64; priv flag set; msgData an OCTET STRING decrypting under the reference cipher; "
                "the request's OID encoding (>= 8 octets, random arcs) and the first 16 plaintext octets occur nowhere in the datagram. "
                "Rig R: counters seeded at 2^32-3 / 2^64-3 / max via the verif hook, in rel and dbg (a non-wrapping add would panic). "
                "distinct = (configuration, installation) pairs.")
    chk.assumptions = ["loopback delivers every datagram of a burst (agent socket buffer 1 MiB); a shortfall is reported as inconclusive",
                       "2^32 messages cannot be sent: the wrap is reached only through the hook"]
    C.self_test(cross=False)
    n = 1500 if a.tier == "quick" else 25000
    cfgs = []
    for cl in ("sync",):
        for auth in ("md5", "sha1"):
            for priv in ("des", "aes"):
                for kt in ("password", "master", "localized"):
                    for eg in (True, False):
                        cfgs.append(rigp.Cfg("v3", auth=auth, priv=priv, auth_kt=kt, priv_kt=kt, engine_given=eg, client=cl))
    rng = random.Random(a.seed)
    rng.shuffle(cfgs)
    cfgs = cfgs[:16] if a.tier == "quick" else cfgs
    jobs = [{"seed": a.seed * 31337 + i, "cfg": c.to_json(), "n": n, "installations": 2 if a.tier == "quick" else 4} for i, c in enumerate(cfgs)]
    outs = runner.run_workers("checks.c14", "worker", jobs, variant="rel", timeout=3000)
    st = {"messages": 0, "installations": 0, "boots_changes": 0, "receives": 0, "distinct_salts": 0}
    for o in outs:
        res = o["result"]
        if res is None:
            if o["rc"] == "timeout":
                chk.inconc("worker timeout at %s" % o["progress"])
            else:
                chk.violation("abort:rigp", "worker died rc=%s at %s: %s" % (o["rc"], o["progress"], o["stderr"][-400:]), {})
            continue
        if "harness_error" in res:
            raise runner.HarnessError(res["harness_error"])
        for x in res.get("inconclusive", []):
            chk.inconc(x)
        st["messages"] += res["msgs"]
        st["installations"] += res["installations"]
        st["boots_changes"] += res["boots_changes"]
        st["receives"] += res["receives"]
        st["distinct_salts"] += res["salts_distinct"]
        st["refused_set_keys"] = st.get("refused_set_keys", 0) + res.get("refused_set_keys", 0)
        st["wrap_installations"] = st.get("wrap_installations", 0) + res.get("wrap_installations", 0)
        st["damaged_duplicates"] = st.get("damaged_duplicates", 0) + res.get("damaged_duplicates", 0)
        for x in res.get("samples", [])[:1]:
            chk.sample(x, limit=5)
        key = rigp.Cfg.from_json(o["job"]["cfg"]).key()
        for k in range(res["installations"]):
            chk.distinct.add("%s#%d" % (key, k))
        for b in res["bad"]:
            chk.violation("%s:%s" % (b["sig"], "des" if "/des/" in b["cfgkey"] else "aes"), "[%s] %s" % (b["cfgkey"], b["msg"]), b)
    chk.seen(st["messages"])
    chk.extra["rig_p"] = st
    chk.floor("messages", st["messages"], 10000)
    rig_r(chk, a.tier, a.seed)
    sys.exit(chk.finish())


if __name__ == "__main__":
    try:
        main()
    except (runner.HarnessError, build.BuildError) as e:
        print("HARNESS-ERROR: %s" % e)
        sys.exit(2)
