"""C08 - The OID sent is the OID asked for; invalid OID text is refused.

Rig R: 10^5..10^7 strings through SnmpOid::try_from(&str) / String::try_from.
Rig P: strings through every entry point that parses caller text (get,
get_many, getnext, getbulk, fetch), the agent echoing the received OID."""
import random
import re
import sys

from vlib import ber_ref as B
from vlib import build, driver, model as M, rigp, runner

PID = "C08"
TOK = re.compile(r"\+?[0-9]+")
U32 = 4294967295


def denotation(s):
    """Liberal reading of dotted text: surrounding blanks stripped, '+' and leading zeros allowed."""
    toks = s.strip(" ").split(".")
    if any(not TOK.fullmatch(t) or not t.isascii() for t in toks):
        return None
    return tuple(int(t) for t in toks)


def must_accept(s):
    toks = s.split(".")
    if len(toks) < 2 or any(not re.fullmatch(r"(0|[1-9][0-9]*)", t) or not t.isascii() for t in toks):
        return None
    arcs = tuple(int(t) for t in toks)
    if arcs[0] > 2 or arcs[1] > 39 or any(a > U32 for a in arcs):
        return None
    return arcs


def encodable(arcs):
    """X.690 8.19 encoding of a denotation, or None if it has none."""
    if arcs is None or len(arcs) < 2 or arcs[0] > 2 or (arcs[0] < 2 and arcs[1] > 39):
        return None
    return B.arc_b128(arcs[0] * 40 + arcs[1]) + b"".join(B.arc_b128(a) for a in arcs[2:])


PREFIXES = ["1.3.6.1.2.1", "1.3.6.1.4.1", "1.3.6.1.6.3", "1.3.6.1.2.1.1", "1.3.6.1.2.1.2.2.1", "1.3.6.1.4.1.9", "1.3.6.1.4.1.2636",
            "1.0.8802.1.1.2", "1.2.840.10006.300.43", "1.3.111.2.802.1", "2.16.840.1.113883", "0.9.2342.19200300", "0.0", "1.3", "2.5.4"]


def gen_prefixed(rng):
    """Real-world prefixes followed by arbitrary arcs, then (half of the time) one or two character-level edits: code
    that looks at the *text* of a well-known prefix instead of its arcs goes wrong exactly on these neighbours
    (1.3.6.1.2.1 -> 1.3.6.1.2.10, 1.3.6.1.4.1 -> 1.3.6.1.4.127, ...)."""
    s = rng.choice(PREFIXES)
    for _ in range(rng.choice([0, 0, 1, 2, 3, 6])):
        s += ".%d" % M.gen_arc(rng)
    if rng.random() < 0.5:
        return s, "valid:prefix"
    for _ in range(rng.choice([1, 1, 2])):
        i = rng.randrange(len(s) + 1)
        k = rng.randrange(5)
        if k == 0:
            s = s[:i] + rng.choice("0123456789") + s[i:]
        elif k == 1 and i < len(s):
            s = s[:i] + s[i + 1:]
        elif k == 2 and i < len(s):
            s = s[:i] + s[i] + s[i:]
        elif k == 3 and i < len(s) and s[i].isdigit():
            s = s[:i] + rng.choice("0123456789") + s[i + 1:]
        else:
            j = s.rfind(".", 0, i) + 1
            s = s[:j] + rng.choice(["1", "10", "12", "127", "128", "16383", "16384"]) + s[s.find(".", j) if s.find(".", j) >= 0 else len(s):]
    return s, "mutated-prefix"


def len_oid_text(rng, L):
    """Dotted text of a valid OID whose X.690 content is exactly L octets long (L >= 1)."""
    arcs, left = [1, 3], L - 1
    while left > 0:
        k = rng.choice([k for k in (1, 1, 1, 2, 3, 5) if k <= left])
        lo = 0 if k == 1 else 1 << (7 * (k - 1))
        hi = min((1 << (7 * k)) - 1, U32)
        arcs.append(rng.randrange(lo, hi + 1))
        left -= k
    return ".".join(str(a) for a in arcs)


def gen_string(rng):
    """-> (string, class)"""
    r = rng.random()
    if r > 0.85:
        return gen_prefixed(rng)
    if r < 0.45:
        n = rng.choice([2, 2, 3, 5, 9, 14, 40, 128, rng.randint(2, 128)])
        o = M.gen_oid(rng, n, n)
        if rng.random() < 0.3:
            o = (o[0], rng.choice([0, 39, 38, 1])) + o[2:]
        return B.oid_text(o), "valid:%d" % min(n, 20)
    arcs = list(M.gen_oid(rng, 2, 8))
    k = rng.randrange(18)
    if k == 0:
        return "", "empty"
    if k == 1:
        return str(rng.choice([0, 1, 2, 3, 40, U32])), "single-arc"
    if k == 2:
        i = rng.randrange(len(arcs))
        t = [str(a) for a in arcs]
        t[i] = ""
        return ".".join(t), "empty-arc"
    if k == 3:
        return "." + B.oid_text(arcs), "leading-dot"
    if k == 4:
        return B.oid_text(arcs) + ".", "trailing-dot"
    if k == 5:
        i = rng.randrange(len(arcs))
        t = [str(a) for a in arcs]
        t[i] = rng.choice(["-", "+", "-0", "+0"])[0:1] + t[i] if rng.random() < 0.8 else rng.choice(["-", "+"])
        return ".".join(t), "sign"
    if k == 6:
        i = rng.randrange(len(arcs))
        t = [str(a) for a in arcs]
        t[i] = rng.choice(["a", "x1", "1x", "0x10", "1e3", "١", " ", "1 2", "\t1", "1\n", "½", "１"])
        return ".".join(t), "non-digit"
    if k == 7:
        i = rng.randrange(2, len(arcs)) if len(arcs) > 2 else 1
        t = [str(a) for a in arcs]
        t[i] = str(rng.choice([U32 + 1, U32 + 2, 2 ** 33, 2 ** 64, 10 ** 30, 99999999999]))
        return ".".join(t), "arc-too-big"
    if k == 8:
        arcs[0] = rng.choice([3, 4, 6, 7, 9, 100, 255, 256, U32, U32 + 1])
        return B.oid_text(arcs), "first-arc>2"
    if k == 9:
        arcs[0] = rng.choice([0, 1])
        arcs[1] = rng.choice([40, 41, 50, 100, 216, 255, 256, U32])
        return B.oid_text(arcs), "second-arc>39"
    if k == 10:
        arcs[0] = 2
        arcs[1] = rng.choice([40, 47, 48, 100, 175, 176, 1000, U32])
        return B.oid_text(arcs), "2.x>39"
    if k == 11:
        t = [str(a) for a in arcs]
        i = rng.randrange(len(arcs))
        t[i] = "0" * rng.randint(1, 3) + t[i]
        return ".".join(t), "leading-zeros"
    if k == 12:
        return rng.choice([" ", "  "]) + B.oid_text(arcs) if rng.random() < 0.5 else B.oid_text(arcs) + " ", "blanks"
    if k == 13:
        return B.oid_text(arcs).replace(".", rng.choice(["..", ",", " ", ". ", "/"]), 1), "separator"
    if k == 14:
        return "".join(rng.choice("0123456789.+- ax") for _ in range(rng.randint(1, 12))), "random"
    if k == 15:
        n = rng.choice([129, 200, 1000])
        return B.oid_text((1, 3) + tuple(rng.randrange(128) for _ in range(n - 2))), "long:%d" % n
    if k == 16:
        return B.oid_text(arcs) + rng.choice(["\x00", "\x00.1", "e", ".1e1"]), "trailing-junk"
    return B.oid_text(arcs[:2]) + "." + ".".join(str(rng.choice([U32, U32 - 1, 2 ** 31, 2 ** 28, 2 ** 21, 2 ** 14, 128])) for _ in range(rng.randint(1, 6))), "valid:edges"


def judge(s, parsed_ok, content, rendered):
    """parsed_ok: bool; content: bytes or None; rendered: text or None. -> None or (sig, msg)."""
    ma = must_accept(s)
    if ma is not None:
        if not parsed_ok:
            return ("refused-valid", "valid OID %r was refused" % s[:80])
        if content != B.oid_content(ma):
            return ("wrong-oid", "%r encoded as %s, X.690 says %s" % (s[:80], content.hex()[:60], B.oid_content(ma).hex()[:60]))
        if rendered is not None and rendered != s:
            return ("print", "%r is printed back as %r" % (s[:80], rendered[:80]))
        return None
    if not parsed_ok:
        return None
    enc = encodable(denotation(s))
    if enc is None:
        return ("invalid-accepted", "%r is not a valid OID but was accepted and encoded as %s" % (s[:80], content.hex()[:40]))
    if content != enc:
        d = denotation(s)
        return ("wrong-oid", "%r (denoting %s) was encoded as %s = %s" % (
            s[:60], B.oid_text(d)[:60], content.hex()[:40], _safe_text(content)))
    if rendered is not None and denotation(rendered) != denotation(s):
        # accepted beyond what must be accepted (e.g. 2.999): still the same OID when printed back
        return ("print", "%r was accepted and sent as %s but is printed back as %r" % (s[:60], content.hex()[:40], rendered[:60]))
    return None


def _safe_text(content):
    try:
        return B.oid_text(B.dec_oid_content(content, strict=False))[:60]
    except Exception:
        return "?"


def sig_of(cls, sig):
    return "%s:%s" % (sig, cls.split(":")[0])


def rig_r(chk, tier, seed):
    plans = [("rel", 16, 15000), ("dbg", 16, 3000)] if tier == "quick" else [("rel", 16, 400000), ("dbg", 16, 60000), ("asan", 16, 20000)]
    st = {}
    for variant, nsh, n in plans:
        build.build(variant)

        def one(sh):
            rng = random.Random(seed * 4099 + sh)
            cases = [gen_string(rng) for _ in range(n)]
            p, out = runner.ldrive(variant, ["oidparse\t" + (s.encode("utf-8", "surrogatepass").hex() or "-") for s, _ in cases])
            # second pass: render what was accepted
            acc = [(i, o[1]) for i, o in enumerate(out) if o[0] == "ok"] if len(out) == len(cases) else []
            p2, out2 = runner.ldrive(variant, ["oidtext\t" + (h or "-") for _, h in acc]) if acc else (None, [])
            return cases, p, out, acc, out2
        cnt = 0
        for cases, p, out, acc, out2 in runner.parallel(one, range(nsh)):
            if len(out) != len(cases) or len(out2) != len(acc):
                chk.violation("rigr:died", "ldrive %s died: %s" % (variant, p.stderr.decode(errors="replace")[-300:]), {})
                continue
            rend = {i: (o2[1] if o2[0] == "ok" else None) for (i, _), o2 in zip(acc, out2)}
            for i, ((s, cls), o) in enumerate(zip(cases, out)):
                cnt += 1
                chk.distinct.add("R:" + cls)
                if o[0] == "panic":
                    chk.violation("panic:%s" % o[1].split(": ")[0].replace("/repo/", ""), "parsing %r panicked: %s" % (s[:60], o[1][:160]), {"s": s})
                    continue
                v = judge(s, o[0] == "ok", bytes.fromhex(o[1]) if o[0] == "ok" and len(o) > 1 else (b"" if o[0] == "ok" else None), rend.get(i))
                if o[0] == "ok" and must_accept(s) is not None and rend.get(i) is None:
                    v = v or ("print", "%r parsed but could not be printed back" % s[:60])
                if v:
                    chk.violation(sig_of(cls, v[0]), "[Rig R %s] %s" % (variant, v[1]), {"rig": "R", "variant": variant, "string": s, "class": cls})
        st[variant] = {"strings": cnt}
        chk.seen(cnt)
    chk.extra["rig_r"] = st


def worker(job):
    import gufo.snmp  # noqa: F401
    prog = runner.Progress(job.get("_progress"))
    rng = random.Random(job["seed"])
    cfg = rigp.Cfg.from_json(job["cfg"])
    res = {"cases": 0, "classes": {}, "bad": [], "sent": 0, "refused": 0, "inconclusive": []}
    box = {"reqs": []}

    def handler(agent, req):
        def f(req):
            box["reqs"].append(req)
            if not req.ok:
                return None
            oids = req.oids()
            if req.pdu["tag"] == B.PDU_GET:
                return agent.reply(req, [B.enc_varbind(o, B.enc_int(7)) for o in oids])
            if box.get("walk_long"):
                # an endless supply of increasing entries below the requested OID (the caller will abandon the walk)
                box["n_long"] = box.get("n_long", 0) + 1
                return agent.reply(req, [B.enc_varbind(oids[0][:len(oids[0])] + (1,) * box["n_long"], B.enc_int(7))]) if False else \
                    agent.reply(req, [B.enc_varbind(oids[0] + (1,), B.enc_int(7)), B.enc_varbind(oids[0] + (2,), B.enc_int(7))][:1 if req.pdu["tag"] == B.PDU_GETNEXT else 2])
            if box.get("walk_served"):
                return agent.reply(req, [B.enc_varbind(oids[0], M.EXC_TLV["EndOfMibView"])])
            box["walk_served"] = True
            return agent.reply(req, [B.enc_varbind(oids[0] + (1,), B.enc_int(7))])
        return agent.discovery_or(req, f)
    agent = rigp.Agent(handler, users=[cfg.user_keys()]).start()
    drv = driver.Driver(cfg, agent, timeout=2.0).create()
    drv.call("open")
    ops = ["get", "get_many", "getnext", "getbulk", "fetch"]
    todo = [gen_string(rng) + (None,) for _ in range(job["n"])]
    # every encoded length: an OID of exactly L content octets (1-, 2-, 3- and 5-octet arcs mixed) through each entry point
    for L, sop in job.get("sweep", []):
        todo.append((len_oid_text(rng, L), "len:%d" % (L // 32), sop))
    for i, (s, cls, sop) in enumerate(todo):
        op = sop or ops[i % len(ops)]
        if op == "getbulk" and cfg.version == "v1":
            op = "getnext"
        box["reqs"], box["walk_served"] = [], False
        prog.mark({"i": i, "s": s[:60], "op": op})
        try:
            s.encode("utf-8")
        except UnicodeEncodeError:
            continue
        if op in ("getnext", "getbulk", "fetch") and i % 4 == 1 and must_accept(s) is not None:
            # history: walk this text, leave the walk after its first item, then (below) walk the same text again
            box["walk_long"] = True
            drv.call(op, s, limit=1)
            box["walk_long"] = False
            box["reqs"], box["walk_served"] = [], False
        if op == "get_many":
            other = "1.3.6.1.2.1.1.1.0"
            pos = rng.randrange(2)
            lst = [other, s] if pos else [s, other]
            out = drv.call("get_many_gen" if i % 3 == 1 else op, lst)   # every third time as a one-shot iterator
        else:
            out = drv.call(op, s)
        res["cases"] += 1
        res["classes"][cls] = res["classes"].get(cls, 0) + 1
        reqs = box["reqs"]
        if out[0] == "exc" and out[1]["cls"] == "TimeoutError" and (not reqs or reqs[0].ok):
            res["inconclusive"].append("timeout (load) on %r" % s[:40])
            continue
        v = None
        if out[0] == "exc" and driver.classify_exc(out[1]) == "panic":
            v = ("panic", "%s(%r) raised %s: %s" % (op, s[:60], out[1]["cls"], out[1]["msg"][:120]))
        elif not reqs:
            res["refused"] += 1
            if out[0] != "exc":
                v = ("no-datagram", "%s(%r) returned %r without sending anything" % (op, s[:60], out[1]))
            else:
                v = judge(s, False, None, None)
        else:
            res["sent"] += 1
            rq = reqs[0]
            if not rq.ok:
                v = ("strict", "%s(%r) emitted a malformed datagram: %s" % (op, s[:60], rq.err))
            else:
                idx = (1 if pos else 0) if op == "get_many" else 0
                raw = rq.pdu["varbinds"][idx][2] if len(rq.pdu["varbinds"]) > idx else b""
                rendered = None
                if out[0] == "ok":
                    if op == "get":
                        rendered = s if out[1] == 7 else None
                    elif op == "get_many" and isinstance(out[1], dict):
                        ks = [k for k in out[1] if k != "1.3.6.1.2.1.1.1.0"]
                        rendered = ks[0] if len(ks) == 1 else (s if not ks and must_accept(s) and B.oid_text(must_accept(s)) == "1.3.6.1.2.1.1.1.0" else None)
                    elif isinstance(out[1], list) and len(out[1]) == 1:
                        rendered = out[1][0][0][:-2] if out[1][0][0].endswith(".1") else out[1][0][0]
                v = judge(s, True, raw, rendered)
                if v is None and must_accept(s) is not None and rendered is None:
                    v = ("print", "%s(%r): the echoed OID did not come back as the same text: %s" % (op, s[:60], repr(out)[:120]))
        if v and len(res["bad"]) < 100:
            res["bad"].append({"sig": v[0], "msg": "%s %s: %s" % (cfg.key(), op, v[1]), "string": s, "class": cls, "op": op,
                               "datagram": reqs[0].raw.hex() if reqs else None})
    agent.stop()
    return res


def rig_p(chk, tier, seed):
    n = 220 if tier == "quick" else 6000
    cfgs = rigp.base_cfgs(("sync", "async"))
    pairs = [(L, op) for L in range(1, 301 if tier == "quick" else 1025) for op in ("get", "get_many", "getnext", "getbulk", "fetch")]
    jobs = [{"seed": seed * 613 + i, "cfg": c.to_json(), "n": n, "sweep": pairs[(i + seed) % len(cfgs)::len(cfgs)]} for i, c in enumerate(cfgs)]
    outs = runner.run_workers("checks.c08", "worker", jobs, variant="rel", timeout=3000)
    st = {"cases": 0, "sent": 0, "refused": 0}
    for o in outs:
        res = o["result"]
        if res is None:
            if o["rc"] == "timeout":
                chk.inconc("worker timeout at %s" % o["progress"])
            else:
                chk.violation("abort:rigp", "worker died rc=%s at %s: %s" % (o["rc"], o["progress"], o["stderr"][-300:]), {})
            continue
        if "harness_error" in res:
            raise runner.HarnessError(res["harness_error"])
        for x in res["inconclusive"][:2]:
            chk.inconc(x)
        for k in st:
            st[k] += res[k]
        for c in res["classes"]:
            chk.distinct.add("P:" + c)
        for b in res["bad"]:
            chk.violation(sig_of(b["class"], b["sig"]), "[Rig P] " + b["msg"], b)
    chk.seen(st["cases"])
    chk.extra["rig_p"] = st
    chk.floor("rig_p_strings", st["cases"], 1500)


def main():
    a = runner.main_args()
    chk = runner.Check(PID, "exploration", a.tier, a.seed)
    chk.rule = ("strings over {digits, '.', '-', '+', blanks, letters, other Unicode digits}: valid OIDs with 2..128 arcs and arcs at 0, 127/128, "
                "16383/16384, 2^21-1/2^21, 2^28-1/2^28, 2^32-1; malformed: empty, single arc, empty arcs, leading/trailing dot, signs, "
                "non-digits, arc > 2^32-1, first arc > 2, second arc > 39, leading zeros, blanks, wrong separators, >128 arcs, trailing junk. "
                "Oracle: must-accept set = canonical text with >= 2 arcs, first 0..2, second 0..39, arcs <= 2^32-1 -> parsed, encoded exactly per "
                "X.690 8.19, printed back identically; any other string -> refused before anything is sent, or (if it has a liberal denotation "
                "that X.690 can encode) sent as exactly that OID; any other OID on the wire is the violation. distinct = string classes per rig.")
    chk.assumptions = ["the liberal denotation (optional '+', leading zeros, surrounding blanks) is the widest reasonable reading of dotted text"]
    for s in ("1.3.6.1.2.1", "1.40.1", "3.1.1", "+1.3", "1.3.4294967295"):
        chk.sample({"string": s, "must_accept": must_accept(s) is not None, "denotation": denotation(s)})
    rig_r(chk, a.tier, a.seed)
    rig_p(chk, a.tier, a.seed)
    sys.exit(chk.finish())


if __name__ == "__main__":
    try:
        main()
    except (runner.HarnessError, build.BuildError) as e:
        print("HARNESS-ERROR: %s" % e)
        sys.exit(2)
