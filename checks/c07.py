"""C07 - get / get_many results and SNMP exceptions map as documented.

Scripted replies with 0..6 varbinds drawn from {real value of each type, NULL,
noSuchObject, noSuchInstance, endOfMibView}, any OIDs incl. duplicates and OIDs
not requested; v3 Report in place of the response; no reply at all.
Exhaustive over kind-vectors up to length 4 per configuration."""
import itertools
import random
import sys

from vlib import ber_ref as B
from vlib import build, driver, model as M, rigp, runner

PID = "C07"
KINDS = ["real", "null", "nso", "nsi", "eomv"]
TLV = {"null": B.enc_null(), "nso": M.EXC_TLV["NoSuchObject"], "nsi": M.EXC_TLV["NoSuchInstance"], "eomv": M.EXC_TLV["EndOfMibView"]}
REQ = (1, 3, 6, 1, 2, 1, 1, 5, 0)


def worker(job):
    import gufo.snmp  # noqa: F401
    prog = runner.Progress(job.get("_progress"))
    rng = random.Random(job["seed"])
    cfg = rigp.Cfg.from_json(job["cfg"])
    res = {"cases": 0, "bad": [], "classes": {}, "inconclusive": []}
    st = {}

    def handler(agent, req):
        def f(req):
            if not req.ok:
                st["agent_err"] = req.err
                return None
            m = st["mode"]
            st["prev_req"], st["cur_req"] = st.get("cur_req"), req
            if m == "silent":
                return None
            if m == "stale_report_then_ok":
                # the Report that answered the PREVIOUS (timed-out) request arrives late, ahead of this request's Response
                late = agent.report(st["prev_req"], rigp.REPORT_WRONG_DIGEST, flags=0, mac="empty", encrypt=False) if st.get("prev_req") is not None else None
                return ([late] if late else []) + [agent.reply(req, st["vbs"])]
            if m == "late_stray_then_exc":
                # a non-matching datagram late in the wait, then a reply that maps to an exception
                stray = agent.reply(req, [B.enc_varbind(REQ, B.enc_int(1))], request_id=(req.request_id + 1) & 0x7FFFFFFF)
                return [(0.5 * st["T"], stray), (0.6 * st["T"], agent.reply(req, st["vbs"]))]
            if m == "slow_ok":
                return [(0.65 * st["T"], agent.reply(req, st["vbs"]))]
            if m == "report":
                return agent.report(req, rigp.REPORT_WRONG_DIGEST, flags=0, mac="empty", encrypt=False)
            es = st.get("es", 0)
            return agent.reply(req, st["vbs"], error_status=es, error_index=(1 if es else 0))
        return agent.discovery_or(req, f)
    agent = rigp.Agent(handler, users=[cfg.user_keys()]).start()
    drv = driver.Driver(cfg, agent, timeout=0.25).create()
    drv.call("open")
    real_kinds = [k for k in M.KINDS if k != "Null"]
    for ci, c in enumerate(job["cases"]):
        prog.mark({"cfg": cfg.key(), "case": ci})
        op, mode, vec = c["op"], c["mode"], c["vec"]
        # OIDs: requested one, others, duplicates
        pool = [REQ, REQ + (1,), (1, 3, 6, 1, 4, 1, 5), M.gen_oid(rng)]
        vbs, model = [], []
        prev = None
        for k in vec:
            o = rng.choice(pool) if len(vec) > 1 else rng.choice([REQ, M.gen_oid(rng)])
            name = B.enc_oid(o)
            if c.get("rel") and prev is not None and len(prev) > 3 and rng.random() < 0.65:
                # the name as a RELATIVE-OID (the decoder's private extension): r trailing sub-identifiers that replace
                # the last r sub-identifiers of the *preceding* varbind's (resolved) name; runs of several, longer
                # and shorter ones in any order
                r = rng.randint(1, len(prev) - 3)
                tail = tuple(rng.choice([1, 2, 11, 127, 128, 16383, 16384, M.gen_arc(rng)]) for _ in range(r))
                o = prev[:len(prev) - r] + tail
                name = B.tlv(B.RELOID, b"".join(B.arc_b128(x) for x in tail))
            prev = o
            if k == "real":
                v = M.gen_value(rng, real_kinds)
                vbs.append(B.enc_seq([name, v["tlv"]]))
                model.append((B.oid_text(o), "real", v["py"]))
            else:
                vbs.append(B.enc_seq([name, TLV[k]]))
                model.append((B.oid_text(o), k, None))
        # the statement maps replies by their varbinds alone: a non-zero error-status (tooBig, noSuchName, genErr, ...) around
        # the same varbinds changes nothing
        st.update(mode="silent" if mode == "silent_burst" else mode, vbs=vbs, es=c.get("es", 0))

        def do_call(o):
            if o == "get":
                return drv.call("get", B.oid_text(REQ))
            return drv.call("get_many", [B.oid_text(REQ), B.oid_text(REQ + (1,))])
        if mode == "history":
            # one session: a request that ends in an exception after a late stray datagram must not change how the
            # next replies are mapped - a reply arriving at 0.65 x timeout is still "the matching reply"
            T = 0.4
            attempts = []
            for attempt in range(3):
                hd = driver.Driver(cfg, agent, timeout=T).create()
                st.update(mode="ok", vbs=[], T=T)
                hd.call("open")
                steps = []
                for kind in ("nsi", "many", "report" if cfg.version == "v3" else "nso") + (("stale_report",) if cfg.version == "v3" else ()):
                    if kind == "stale_report":
                        st.update(mode="silent")
                        o1 = hd.call("get", B.oid_text(REQ))
                        serial = 7000 + ci * 100 + attempt * 10 + len(steps)
                        st.update(mode="stale_report_then_ok", vbs=[B.enc_varbind(REQ, B.enc_int(serial))])
                        o2 = hd.call(op, B.oid_text(REQ)) if op == "get" else hd.call("get_many", [B.oid_text(REQ)])
                        want = ("ok", serial) if op == "get" else ("ok", {B.oid_text(REQ): serial})
                        steps.append((kind, o1[0] if o1[0] == "ok" else o1[1]["cls"], o2 == want, repr(o2)[:80]))
                        continue
                    if kind == "many":
                        st.update(mode="late_stray_then_exc", vbs=[B.enc_varbind(REQ, B.enc_int(1)), B.enc_varbind(REQ + (1,), B.enc_int(2))])
                    elif kind == "report":
                        st.update(mode="report")
                    else:
                        st.update(mode="late_stray_then_exc", vbs=[B.enc_varbind(REQ, TLV[kind])])
                    o1 = hd.call("get", B.oid_text(REQ))
                    serial = 7000 + ci * 100 + attempt * 10 + len(steps)
                    st.update(mode="slow_ok", vbs=[B.enc_varbind(REQ, B.enc_int(serial))])
                    o2 = hd.call(op, B.oid_text(REQ)) if op == "get" else hd.call("get_many", [B.oid_text(REQ)])
                    want = ("ok", serial) if op == "get" else ("ok", {B.oid_text(REQ): serial})
                    steps.append((kind, o1[0] if o1[0] == "ok" else o1[1]["cls"], o2 == want, repr(o2)[:80]))
                hd.close()
                st.update(mode="ok", vbs=[])
                attempts.append([x for x in steps if not x[2]])
                if not attempts[-1]:
                    break
            res["cases"] += 1
            res["classes"]["%s:history" % op] = 1
            if len(attempts) == 3 and all(attempts) and len(res["bad"]) < 60:
                res["bad"].append({"cfgkey": cfg.key(), "op": op, "mode": mode, "vec": [], "model": [],
                                   "msg": "after a request that ended in an exception (preceded by a late non-matching datagram) a reply sent at 0.65 x "
                                   "timeout was not delivered, on 3 fresh sessions out of 3: (first request, its outcome, delivered, got) %s" % attempts})
            elif len(attempts) > 1:
                res["inconclusive"].append("history %s: first attempt failed (%s), a repeat passed" % (op, attempts[0][:1]))
            continue
        if mode == "silent_burst":
            # several unanswered requests in a row on ONE session: each must raise TimeoutError
            for k, o in enumerate(["get", "get", "get_many", "get_many", "get"]):
                out = do_call(o)
                res["cases"] += 1
                if not (out[0] == "exc" and out[1]["cls"] == "TimeoutError") and len(res["bad"]) < 60:
                    res["bad"].append({"cfgkey": cfg.key(), "op": o, "mode": mode, "vec": [], "model": [],
                                       "msg": "unanswered request number %d in a row on one session: expected TimeoutError, got %s" % (k + 1, repr(out)[:140])})
            res["classes"]["%s:silent_burst" % op] = 1
            continue
        out = do_call(op)
        if mode in ("ok", "report") and out[0] == "exc" and out[1]["cls"] == "TimeoutError":
            # the agent did answer: load, or does the client drop this reply?  Two more attempts on a fresh session decide.
            again = []
            for _ in range(2):
                drv.close()
                st.update(mode="ok", vbs=[])
                drv = driver.Driver(cfg, agent, timeout=1.0).create()
                drv.call("open")
                st.update(mode=mode, vbs=vbs)
                again.append(do_call(op))
            drv.close()
            st.update(mode="ok", vbs=[])
            drv = driver.Driver(cfg, agent, timeout=0.25).create()
            drv.call("open")
            if all(o[0] == "exc" and o[1]["cls"] == "TimeoutError" for o in again):
                if len(res["bad"]) < 60:
                    res["bad"].append({"cfgkey": cfg.key(), "op": op, "mode": mode, "vec": vec, "model": [(o, k, M.jv(py)) for o, k, py in model],
                                       "msg": "the reply was sent but the call timed out, 3 times out of 3 (also with a 1 s timeout): the reply is dropped instead of mapped"})
                res["cases"] += 1
                continue
            out = again[0] if not (again[0][0] == "exc" and again[0][1]["cls"] == "TimeoutError") else again[1]
        res["cases"] += 1
        cls = "%s:%s%s%s:%s" % (op, mode, ":rel" if c.get("rel") else "", ":es" if c.get("es") else "", "".join(k[0] if k != "nsi" else "i" for k in vec) if len(vec) <= 4 else "len%d" % len(vec))
        res["classes"][cls] = 1
        if "agent_err" in st:
            res["inconclusive"].append("agent could not parse: %s" % st.pop("agent_err"))
            continue
        exc = out[1]["cls"] if out[0] == "exc" else None
        mro = out[1]["mro"] if out[0] == "exc" else []
        bad = None
        if mode == "silent":
            if exc != "TimeoutError":
                bad = "no reply: expected TimeoutError, got %s" % repr(out)[:140]
        elif exc == "TimeoutError":
            res["inconclusive"].append("timeout (load)")
            drv.close()
            drv = driver.Driver(cfg, agent, timeout=0.25).create()
            st.update(mode="ok", vbs=[])
            drv.call("open")
            continue
        elif mode == "report":
            if not (exc and "PySnmpAuthError" in mro):
                bad = "Report in place of a response: expected SnmpAuthError, got %s" % repr(out)[:140]
        elif op == "get":
            if len(vec) == 0:
                if out != ("ok", None):
                    bad = "reply without varbinds: expected None, got %s" % repr(out)[:140]
            elif len(vec) == 1:
                k = vec[0]
                if k == "real":
                    if not (out[0] == "ok" and M.same_value(model[0][2], out[1])):
                        bad = "single varbind with value %r: got %s" % (M.jv(model[0][2]), repr(out)[:140])
                elif k == "null":
                    if out != ("ok", None):
                        bad = "single NULL varbind: expected None, got %s" % repr(out)[:140]
                else:
                    if not (exc and "PyNoSuchInstance" in mro):
                        bad = "single %s varbind: expected NoSuchInstance, got %s" % (k, repr(out)[:140])
            else:
                if not (exc and "PySnmpError" in mro):
                    bad = "reply with %d varbinds: expected an SnmpError, got %s" % (len(vec), repr(out)[:140])
        else:
            want = {}
            for o, k, py in model:
                if k == "real":
                    want.setdefault(o, []).append(py)
            if out[0] != "ok" or not isinstance(out[1], dict):
                bad = "get_many: expected a dict over %s, got %s" % (sorted(want), repr(out)[:140])
            elif set(out[1]) != set(want):
                bad = "get_many keys %s, the reply's real-valued varbinds are %s" % (sorted(out[1]), sorted(want))
            else:
                for o, v in out[1].items():
                    if not any(M.same_value(w, v) for w in want[o]):
                        bad = "get_many[%s] = %r is none of the values sent for it %r" % (o, M.jv(v), [M.jv(w) for w in want[o]])
                        break
        if len(res.setdefault("samples", [])) < 2 and ci % 70 == 9:
            res["samples"].append({"cfg": cfg.key(), "op": op, "mode": mode, "reply_varbinds": [(o, k, M.jv(py)) for o, k, py in model][:6], "call_returned": repr(out)[:160]})
        if bad and len(res["bad"]) < 60:
            res["bad"].append({"cfgkey": cfg.key(), "op": op, "mode": mode, "vec": vec, "msg": bad, "model": [(o, k, M.jv(py)) for o, k, py in model]})
    agent.stop()
    return res


def main():
    a = runner.main_args()
    chk = runner.Check(PID, "exploration", a.tier, a.seed)
    chk.rule = ("replies with 0..6 varbinds from {real value of every type, NULL, noSuchObject, noSuchInstance, endOfMibView} with requested, "
                "foreign and duplicate OIDs; exhaustive over all 781 kind-vectors of length 0..4, random for 5..6; plus Report-in-place-of-"
                "response (v3) and no reply; x {get, get_many} x {v1, v2c, v3 noAuth/auth/DES/AES} x {sync, async}. Oracle from the statement: "
                "get: 0 -> None, 1 -> value | None for NULL | NoSuchInstance for the three exception values, >= 2 -> SnmpError; get_many: key "
                "set == OIDs with a real-valued varbind, each value one of those sent for that OID; Report -> SnmpAuthError; silence -> "
                "TimeoutError (never a bare BlockingIOError). distinct = (op, mode, kind-vector).")
    chk.assumptions = ["for duplicate OIDs any tie-break among the real values is accepted",
                       "a varbind named by a RELATIVE-OID (private extension of the decoder) denotes the preceding varbind's name with its "
                       "last r sub-identifiers replaced (r < arcs - 2), as the decoder's own comments define it"]
    rng = random.Random(a.seed)
    vecs = [list(v) for n in range(0, 5) for v in itertools.product(KINDS, repeat=n)]
    vecs += [[rng.choice(KINDS) for _ in range(rng.choice([5, 6]))] for _ in range(150 if a.tier == "quick" else 3000)]
    cases = []
    for op in ("get", "get_many"):
        for v in vecs:
            cases.append({"op": op, "mode": "ok", "vec": v})
    # the same kind-vectors (length 0..3) inside replies with a non-zero error-status
    for op in ("get", "get_many"):
        for v in [v for v in vecs if len(v) <= 3][::2 if a.tier == "quick" else 1]:
            cases.append({"op": op, "mode": "ok", "vec": v, "es": rng.choice([1, 2, 2, 3, 5, 5, 13, 18, 2147483647])})
    # replies whose 2nd.. names are RELATIVE-OIDs (runs of 2..7 of them, mostly real-valued so that the keys are visible)
    for _ in range(120 if a.tier == "quick" else 3000):
        cases.append({"op": "get_many", "mode": "ok", "rel": True,
                      "vec": [rng.choice(["real", "real", "real", rng.choice(KINDS)]) for _ in range(rng.choice([2, 3, 3, 4, 5, 8]))]})
    cfgs = rigp.base_cfgs(("sync", "async"))
    jobs = []
    for ci, cfg in enumerate(cfgs):
        extra = [{"op": op, "mode": m, "vec": []} for op in ("get", "get_many") for m in (["silent"] * 2 + ["silent_burst", "history"] + (["report"] * 5 if cfg.version == "v3" else []))]
        cs = list(cases) + extra
        random.Random(a.seed + ci).shuffle(cs)
        for sh in range(2):
            jobs.append({"seed": a.seed * 53 + ci * 2 + sh, "cfg": cfg.to_json(), "cases": cs[sh::2]})
    outs = runner.run_workers("checks.c07", "worker", jobs, variant="rel", timeout=3000)
    tot = 0
    for o in outs:
        res = o["result"]
        if res is None:
            if o["rc"] == "timeout":
                chk.inconc("worker timeout at %s" % o["progress"])
            else:
                chk.violation("abort:rigp", "worker died rc=%s at %s: %s" % (o["rc"], o["progress"], o["stderr"][-300:]), {})
            continue
        if "harness_error" in res:
            raise runner.HarnessError(res["harness_error"])
        for x in res["inconclusive"][:2]:
            chk.inconc(x)
        tot += res["cases"]
        for x in res.get("samples", [])[:1]:
            chk.sample(x, limit=5)
        for c in res["classes"]:
            chk.distinct.add(c)
        for b in res["bad"]:
            chk.violation("%s:%s:%s" % (b["op"], b["mode"], "".join(k[0] for k in b["vec"])[:6]), "[%s] %s reply %s: %s" % (b["cfgkey"], b["op"], b["model"], b["msg"]), b)
    chk.seen(tot)
    chk.extra["kind_vectors_exhaustive_up_to_length"] = 4
    chk.extra["exhaustive"] = True
    chk.floor("cases", tot, 15000)
    sys.exit(chk.finish())


if __name__ == "__main__":
    try:
        main()
    except (runner.HarnessError, build.BuildError) as e:
        print("HARNESS-ERROR: %s" % e)
        sys.exit(2)
