"""C06 - A walk never leaves its subtree, never goes backwards, always ends.

Agent strategies = arbitrary reply sequences over a small OID/value universe,
exhaustive at depth 1 (and 2 over a reduced set), random deeper.  Oracle: the
executable walk specification vlib.specs.check_walk over the requests seen by
the agent and the (oid, value) pairs yielded to the caller."""
import itertools
import random
import sys

from vlib import ber_ref as B
from vlib import build, driver, model as M, rigp, runner, specs

PID = "C06"
BASES = [(1, 3, 6, 1, 4, 1, 9, 2), (1, 3, 6, 1, 4, 1, 9, 127), (1, 3, 6, 1, 4, 1, 9, 16383),   # (all-ones base-128 last arcs too)
         # a base of 126 BER octets: the universe's entries are 127, 128 and 129 octets long; and one of 207 octets
         (1, 3, 6, 1, 4, 1, 9) + (4294967295,) * 23 + (268435455, 2),
         (1, 3, 6, 1, 4, 1, 9) + (4294967295,) * 40 + (2,)]


def universe(base):
    return [base[:-1] + (base[-1] - 1, 7), base, base + (1,), base + (2,), base + (2, 1), base + (3,), base[:-1] + (base[-1] + 1,),
            base + (300,), base + (16383,), base + (16384,)]   # arcs whose BER encodings differ in length: 82 2c / ff 7f / 81 80 00


BASE = BASES[0]
U = universe(BASE)
KINDS = ["int", "null", "nso", "nsi", "eomv"]
VB = [(oi, k) for oi in range(len(U)) for k in KINDS]   # 35 varbind choices
TLV = {"null": B.enc_null(), "nso": M.EXC_TLV["NoSuchObject"], "nsi": M.EXC_TLV["NoSuchInstance"], "eomv": M.EXC_TLV["EndOfMibView"]}


def strategies(tier, rng):
    """list of scripts; script = list of replies; reply = list of (oid index, kind)."""
    out = []
    maxn = 2 if tier == "quick" else 3
    for n in range(0, maxn + 1):
        for r in itertools.product(VB, repeat=n):
            out.append([list(r)])
    if tier == "quick":
        out += [[list(rng.choice(VB) for _ in range(3))] for _ in range(1500)]
    # depth 2: first reply continues the walk; second reply anything of 0..1 (quick) / 0..2 (thorough) varbinds
    firsts = [[(2, "int")], [(3, "int")], [(4, "int")], [(5, "int")], [(2, "int"), (3, "int")], [(3, "int"), (4, "int")], [(2, "eomv"), (4, "int")],
              [(4, "int"), (2, "int")], [(3, "int"), (3, "int")], [(5, "int"), (5, "nso")], [(7, "int")], [(8, "int")], [(9, "int")], [(7, "int"), (9, "int")]]
    seconds = [[]] + [[v] for v in VB] + ([[a, b] for a in VB for b in VB] if tier != "quick" else [])
    for f in firsts:
        for s in seconds:
            out.append([list(f), list(s)])
    # loops and random deep strategies
    for oi in (2, 3, 4, 5, 8, 9):
        out.append([[(oi, "int")]] * 8)
        out.append([[(oi, "int"), (oi, "int")]] * 6)
        out.append([[(5, "int")], [(oi, "int")], [(5, "int")], [(oi, "int")], [(5, "int")], [(oi, "int")]])
    for _ in range(800 if tier == "quick" else 20000):
        depth = rng.randint(2, 8)
        out.append([[rng.choice(VB) if rng.random() < 0.4 else (rng.choice([2, 3, 4, 5, 7, 8, 9]), "int") for _ in range(rng.choice([0, 1, 1, 1, 2, 3, 6]))]
                    for _ in range(depth)])
    return out


def worker(job):
    import gufo.snmp  # noqa: F401
    prog = runner.Progress(job.get("_progress"))
    cfg = rigp.Cfg.from_json(job["cfg"])
    res = {"walks": 0, "requests": 0, "yields": 0, "bad": [], "outcomes": {}, "inconclusive": []}
    st = {}

    def handler(agent, req):
        def f(req):
            if not req.ok:
                st["agent_err"] = req.err
                return None
            if st.get("drop_at") is not None and len(st["ex"]) == st["drop_at"] and not st.get("dropped"):
                st["dropped"] = True
                st["ex"].append((req.oids()[0] if req.oids() else (), "DROPPED"))
                return None
            k = len([e for e in st["ex"] if e[1] != "DROPPED"])
            script = st["script"]
            if k < len(script):
                reply = []
                for oi, kind in script[k]:
                    st["serial"] += 1
                    reply.append((st["U"][oi], kind, st["serial"]))
            else:
                reply = [((req.oids() or [st["U"][1]])[0], "eomv", 0)]
            st["ex"].append((req.oids()[0] if req.oids() else (), reply))
            if len(st["ex"]) > len(script) + 4:
                return None  # stop feeding a runaway walk: it will time out
            vbs = [B.enc_varbind(o, B.enc_int(s) if kind == "int" else TLV[kind]) for o, kind, s in reply]
            return agent.reply(req, vbs)
        return agent.discovery_or(req, f)
    agent = rigp.Agent(handler, users=[cfg.user_keys()]).start()
    drv = driver.Driver(cfg, agent, timeout=0.4).create()
    drv.call("open")
    for si, (op, script) in enumerate(job["cases"]):
        prog.mark({"cfg": cfg.key(), "case": si})
        BASE = BASES[(si // 7) % len(BASES)]
        U = universe(BASE)
        st["U"] = U
        if op.startswith("getbulk") and cfg.version == "v1":
            op = op.replace("getbulk", "getnext")
        retry = op.endswith("_retry")
        if si % 9 == 4:
            # an earlier walk on the same session, left after its first item with the rest of its batch unread: nothing of
            # it may surface in the walk under test
            st.update(script=[[(2, "int"), (3, "int"), (4, "int")]], ex=[], serial=si * 100 + 50, drop_at=None, dropped=False)
            drv.call("getnext" if cfg.version == "v1" else "getbulk", B.oid_text(BASE), limit=1)
        st.update(script=script, ex=[], serial=si * 100, drop_at=(1 + si % 2) if retry else None, dropped=False)
        out = drv.call(op, B.oid_text(BASE), limit=60)
        if retry:
            op = op[:-6]
        res["walks"] += 1
        n0 = len(st["ex"])
        got = out[1] if out[0] == "ok" else list(drv.partial)
        yields = [(tuple(int(x) for x in y[0].split(".")), y[1]) for y in got if y != "LIMIT"]
        res["requests"] += n0
        res["yields"] += len(yields)
        oc = "ok" if out[0] == "ok" else out[1]["cls"]
        res["outcomes"][oc] = res["outcomes"].get(oc, 0) + 1
        bad = []
        if out[0] == "exc" and driver.classify_exc(out[1], op) in ("panic", "undocumented"):
            bad.append(("panic", "%s raised %s: %s" % (op, out[1]["cls"], out[1]["msg"][:120])))
        if "agent_err" in st:
            res["inconclusive"].append("agent could not parse a request: %s" % st.pop("agent_err"))
            continue
        if out[0] == "exc" and out[1]["cls"] == "TimeoutError" and len(st["ex"]) <= len(script) + 2:
            res["inconclusive"].append("timeout (load) in case %d" % si)
            drv.close()
            drv = driver.Driver(cfg, agent, timeout=0.4).create()
            drv.call("open")
            continue
        bad += specs.check_walk(op, BASE, st["ex"], yields, ("ok",) if out[0] == "ok" else ("exc", out[1]), len(script))
        if len(res.setdefault("samples", [])) < 2 and si % 60 == 11:
            res["samples"].append({"cfg": cfg.key(), "op": op, "agent_script": [[(B.oid_text(U[oi]), k) for oi, k in r] for r in script][:4],
                                   "requests_seen": [B.oid_text(e[0]) if e[0] else "" for e in st["ex"]][:6],
                                   "yielded": [(B.oid_text(y[0]), y[1]) for y in yields][:6], "outcome": oc, "spec_disagreements": [b[0] for b in bad]})
        for sig, msg in bad:
            if len(res["bad"]) < 80:
                res["bad"].append({"sig": sig, "msg": msg, "cfgkey": cfg.key(), "op": op,
                                   "script": [[(B.oid_text(U[oi]), k) for oi, k in r] for r in script],
                                   "requests": [B.oid_text(e[0]) if e[0] else "" for e in st["ex"]][:12],
                                   "yields": [(B.oid_text(y[0]), y[1]) for y in yields][:12], "outcome": repr(out)[:200]})
        if bad or out[0] == "exc":
            drv.close()
            drv = driver.Driver(cfg, agent, timeout=0.4).create()
            drv.call("open")
    agent.stop()
    return res


RAW_BASE = (1, 3, 6, 1, 4, 1, 9, 2)


def raw_universe():
    """Varbind names as raw OBJECT IDENTIFIER contents, including ones no list of integer arcs produces: a last
    sub-identifier cut short (continuation bit set on the final octet) and sub-identifiers of 2^32 and more.
    (Zero-padded sub-identifiers are left out: the client echoes an accepted name octet for octet, which is what the
    statement asks for, and my agent's strict reader could then not answer the follow-up request.)"""
    r = B.oid_content(RAW_BASE)
    return [r + b"\x04", r + b"\x05", r + b"\x85", r + b"\x86", r + b"\x87", r + b"\x04\x01", r + b"\x05\x81",
            r + b"\x06", r + b"\x90\x80\x80\x80\x05", r + b"\x90\x80\x80\x80\x06", r + b"\x8f\xff\xff\xff\x7f", r + b"\xff" * 9 + b"\x7f",
            r + b"\x06\x90\x80\x80\x80\x00", r[:-1] + b"\x82", r, r[:-1] + b"\x03\x01", r + b"\x7f"]


def raw_worker(job):
    """Weak, decoding-independent clauses of the statement against agents that send raw (also malformed) names:
    every yielded OID (as printed) lies strictly inside the subtree and the printed OIDs are strictly increasing; the walk
    ends (bounded number of requests); every request is a well-formed datagram naming an OID the previous reply carried
    (or the base); nothing but documented exceptions."""
    import gufo.snmp  # noqa: F401
    cfg = rigp.Cfg.from_json(job["cfg"])
    rng = random.Random(job["seed"])
    U = raw_universe()
    res = {"walks": 0, "requests": 0, "yields": 0, "bad": [], "inconclusive": [], "outcomes": {}}
    st = {}

    def handler(agent, req):
        def f(req):
            if not req.ok:
                # a follow-up request that names, octet for octet, a malformed name the previous reply carried is the
                # statement's "request for the last OID it accepted" (the garbage is the agent's); my strict reader
                # cannot answer it, so the walk ends in a timeout - not judged.  Anything else malformed is a finding.
                blob = req.raw + (req.plaintext or b"")
                last = st["offered"][-1] if st["offered"] else []
                if any(isinstance(nm, tuple) for nm in last) or any(B.tlv(B.OID, nm) in blob for nm in last if not isinstance(nm, tuple)):
                    st["echo"] = True
                else:
                    st["malformed"] = (req.err, req.raw.hex())
                return None
            st["reqs"].append(B.oid_content(req.oids()[0]) if req.oids() else b"")
            k = len(st["reqs"]) - 1
            if len(st["reqs"]) > st["limit"]:
                return None
            script = st["script"]
            names = script[k % len(script)] if st["cycle"] else (script[k] if k < len(script) else None)
            if names is None:
                return agent.reply(req, [B.enc_seq([B.tlv(B.OID, st["reqs"][-1] or b"\x2b"), M.EXC_TLV["EndOfMibView"]])])
            st["offered"].append(names)
            vbs = []
            for nm in names:
                st["serial"] += 1
                vbs.append(B.enc_seq([B.tlv(B.RELOID, nm[1]) if isinstance(nm, tuple) else B.tlv(B.OID, nm), B.enc_int(st["serial"])]))
            return agent.reply(req, vbs)
        return agent.discovery_or(req, f)
    agent = rigp.Agent(handler, users=[cfg.user_keys()]).start()
    drv = driver.Driver(cfg, agent, timeout=0.4).create()
    drv.call("open")
    base_c = B.oid_content(RAW_BASE)
    for ci in range(job["n"]):
        op = "getnext" if ci % 2 else "getbulk"
        if cfg.version == "v1":
            op = "getnext"
        depth = rng.choice([1, 2, 3, 5])
        script = [[rng.choice(U) for _ in range(1 if op == "getnext" else rng.choice([1, 2, 3, 5]))] for _ in range(depth)]
        if op == "getbulk" and rng.random() < 0.35:
            # some non-first names as RELATIVE-OIDs (they bypass the OBJECT IDENTIFIER decoder), also with zero-padded
            # sub-identifiers: 80 05 is 5, not something greater than 6
            REL = [b"\x05", b"\x06", b"\x80\x05", b"\x80\x80\x05", b"\x80\x06", b"\x04\x01", b"\x80\x04\x01", b"\x07", b"\x80\x80\x80\x01", b"\x01"]
            for r in script:
                for j in range(1, len(r)):
                    if rng.random() < 0.6:
                        r[j] = ("rel", rng.choice(REL))
        cycle = rng.random() < 0.4
        st.update(script=script, cycle=cycle, reqs=[], offered=[], serial=ci * 100, limit=len(U) * 3 + 6)
        st.pop("malformed", None)
        st.pop("echo", None)
        out = drv.call(op, B.oid_text(RAW_BASE), limit=200)
        res["walks"] += 1
        got = out[1] if out[0] == "ok" else list(drv.partial)
        yields = [y for y in got if y != "LIMIT"]
        res["requests"] += len(st["reqs"])
        res["yields"] += len(yields)
        oc = "ok" if out[0] == "ok" else out[1]["cls"]
        res["outcomes"]["raw:" + oc] = 1
        bad = []
        if "malformed" in st:
            bad.append(("malformed-request", "the walk emitted a datagram a strict decoder rejects (%s): %s" % st["malformed"]))
        if out[0] == "exc" and driver.classify_exc(out[1], op) in ("panic", "undocumented"):
            bad.append(("panic", "%s raised %s: %s" % (op, out[1]["cls"], out[1]["msg"][:120])))
        if len(st["reqs"]) > st["limit"] or (got and got[-1] == "LIMIT"):
            bad.append(("no-termination", "%d requests / %d yields over a universe of %d names: the walk does not end" % (len(st["reqs"]), len(yields), len(U))))
        prev = None
        for y in yields:
            t = tuple(int(x) for x in y[0].split("."))
            if not specs.in_subtree(RAW_BASE, t):
                bad.append(("outside-subtree", "yielded %s, not strictly inside %s" % (y[0], B.oid_text(RAW_BASE))))
                break
            if prev is not None and t <= prev:
                bad.append(("not-increasing", "yielded %s after %s" % (y[0], B.oid_text(prev))))
                break
            prev = t
        for k, rq in enumerate(st["reqs"]):
            if k > 0 and any(isinstance(nm, tuple) for nm in st["offered"][k - 1]):
                continue   # a relative name was offered: what it resolves to is the decoder's business, not judged here
            allowed = {base_c} if k == 0 else set(st["offered"][k - 1]) | {st["reqs"][k - 1]}
            if rq not in allowed and "malformed" not in st:
                bad.append(("wrong-continuation", "request %d names %s, which the previous reply did not carry (%s)" % (
                    k, rq.hex(), [x.hex() for x in sorted(allowed)])))
                break
        # (a timeout is an ordinary way for these walks to end: an encrypted reply that does not parse is skipped, an
        # echoed malformed name is not answered; termination is judged on the number of requests)
        if "echo" in st:
            res["outcomes"]["raw:echoed-malformed-name"] = 1
        for sig, msg in bad:
            if len(res["bad"]) < 60:
                res["bad"].append({"sig": sig, "msg": msg, "cfgkey": cfg.key(), "op": op, "script": [[("rel:" + x[1].hex()) if isinstance(x, tuple) else x.hex() for x in r] for r in script] + (["(repeated for ever)"] if cycle else []),
                                   "requests": [x.hex() for x in st["reqs"]][:12], "yields": [(y[0], y[1]) for y in yields][:12], "outcome": repr(out)[:200]})
        if bad or out[0] == "exc":
            drv.close()
            drv = driver.Driver(cfg, agent, timeout=0.4).create()
            drv.call("open")
    agent.stop()
    return res


def main():
    a = runner.main_args()
    chk = runner.Check(PID, "exploration", a.tier, a.seed)
    chk.rule = ("universe: 10 OIDs (before base, base, base.1, base.2, base.2.1, base.3, after, base.300, base.16383, base.16384 - arcs whose BER "
                "encodings differ in length) x 5 value kinds (INTEGER serial, NULL, noSuchObject, noSuchInstance, endOfMibView) = 50 varbinds. Exhaustive: every first reply of 0..2 (quick) / 0..3 (thorough) varbinds; depth 2: "
                "10 continuing first replies x every second reply of 0..1 (quick) / 0..2 (thorough) varbinds; loop-forever agents; random "
                "strategies to depth 8 with repeated, decreasing and oversized lists; x {getnext, getbulk} x {v2c, v3 noAuth, v3 auth+priv, v1} "
                "x {sync, async}. After the script the agent answers endOfMibView; a run is cut after len(script)+3 requests. distinct = "
                "(op, configuration, outcome class).")
    chk.assumptions = ["where the statement leaves a choice (multi-varbind GetNext reply; non-increasing OID ends silently or with an error) every "
                       "consistent choice is accepted"]
    rng = random.Random(a.seed)
    strat = strategies(a.tier, rng)
    cases = [("getnext" if i % 2 else "getbulk", s) for i, s in enumerate(strat)] + \
            [("getbulk" if i % 2 else "getnext", s) for i, s in enumerate(strat) if len(s) > 1 or len(s[0]) <= 2 or a.tier != "quick"]
    # a lost datagram in the middle of a walk, the caller retries next() on the same iterator (0.4 s timeout each: few)
    good = [s for s in strat if len(s) >= 2 and all(len(r) >= 1 and all(k == "int" for _, k in r) for r in s[:2])]
    rng.shuffle(good)
    for i, s in enumerate(good[:40 if a.tier == "quick" else 600] + [[[(2, "int"), (3, "int")], [(5, "int"), (7, "int")], [(9, "int")]]] * 4):
        cases.append(("getbulk_retry" if i % 3 else "getnext_retry", s))
    rng.shuffle(cases)
    cfgs = []
    for cl in ("sync", "async"):
        cfgs += [rigp.Cfg("v2c", client=cl), rigp.Cfg("v3", client=cl, engine_given=True), rigp.Cfg("v3", auth="sha1", priv="aes", client=cl),
                 rigp.Cfg("v1", client=cl)]
    nj = 16
    jobs = [{"seed": a.seed, "cfg": cfgs[j % len(cfgs)].to_json(), "cases": cases[j::nj]} for j in range(nj)]
    outs = runner.run_workers("checks.c06", "worker", jobs, variant="rel", timeout=3000)
    rj = [{"seed": a.seed * 41 + j, "cfg": cfgs[j % len(cfgs)].to_json(), "n": 150 if a.tier == "quick" else 4000} for j in range(8)]
    outs += runner.run_workers("checks.c06", "raw_worker", rj, variant="rel", timeout=3000)
    st = {"walks": 0, "requests": 0, "yields": 0}
    for o in outs:
        res = o["result"]
        cfgkey = rigp.Cfg.from_json(o["job"]["cfg"]).key()
        if res is None:
            if o["rc"] == "timeout":
                chk.violation("no-termination:worker", "worker did not finish (walk never ends?) at %s" % o["progress"], {"progress": o["progress"]})
            else:
                chk.violation("abort:rigp", "worker died rc=%s at %s: %s" % (o["rc"], o["progress"], o["stderr"][-300:]), {})
            continue
        if "harness_error" in res:
            raise runner.HarnessError(res["harness_error"])
        for x in res["inconclusive"][:3]:
            chk.inconc(x)
        for k in st:
            st[k] += res[k]
        for x in res.get("samples", [])[:1]:
            chk.sample(x, limit=5)
        for oc in res["outcomes"]:
            chk.distinct.add("%s|%s" % (cfgkey, oc))
        for b in res["bad"]:
            chk.violation("%s:%s" % (b["sig"], b["op"]), "[%s %s] script %s -> requests %s, yields %s: %s" % (
                b["cfgkey"], b["op"], b["script"], b["requests"], b["yields"], b["msg"]), b)
    chk.seen(st["walks"])
    chk.extra.update(st)
    chk.extra["strategies"] = len(strat)
    chk.floor("walks", st["walks"], 3000)
    sys.exit(chk.finish())


if __name__ == "__main__":
    try:
        main()
    except (runner.HarnessError, build.BuildError) as e:
        print("HARNESS-ERROR: %s" % e)
        sys.exit(2)
