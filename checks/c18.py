"""C18 - A request never outlives its timeout.

Fault enumeration over arrival schedules: k well-formed non-matching datagrams
spaced closer than the timeout, optionally followed by the matching reply
before or after the deadline; {sync, async} x {v1, v2c, v3}.  Wall-clock
property: verdicts are guarded by a scheduler-drift probe and triple serial
confirmation; a guard that fires makes the case inconclusive, not violated."""
import random
import sys
import threading
import time

from vlib import ber_ref as B
from vlib import build, driver, rigp, runner

PID = "C18"
T = 0.3
SLACK = max(0.25, 0.5 * T)
OID = (1, 3, 6, 1, 2, 1, 1, 3, 0)


CROWD = {}


class Drift(threading.Thread):
    """Measures how late 10 ms sleeps wake up (scheduler delay) while a case runs."""

    def __init__(self):
        super().__init__(daemon=True)
        self.worst, self.stop_flag = 0.0, False

    def run(self):
        while not self.stop_flag:
            t = time.perf_counter()
            time.sleep(0.01)
            self.worst = max(self.worst, time.perf_counter() - t - 0.01)


def schedules(tier):
    out = []
    ks = [0, 1, 3, 6] if tier == "quick" else [0, 1, 2, 3, 6, 12]
    for k in ks:
        strays = [round(0.6 * i, 3) for i in range(1, k + 1)]
        out.append({"name": "A%d" % k, "strays": strays, "reply": None, "expect": "timeout"})
        out.append({"name": "B%d" % k, "strays": strays, "reply": round(max(1.5, 0.6 * k + 0.3), 3), "expect": "timeout"})
        fast = [round(0.12 * i, 3) for i in range(1, min(k, 5) + 1)]
        out.append({"name": "C%d" % k, "strays": fast, "reply": 0.75, "expect": "value"})
    # histories on ONE session: a request that fails (timeout after a stray, or a decode error) must not
    # change how long the next request waits
    # strays arriving in the last milliseconds before the deadline, then silence (a release datagram at 2.5 T ends a
    # call that would otherwise block for good)
    # (a 1 ms burst of 20 copies of one stray ENDING 0.3 .. 2.8 ms before the nominal deadline - the agent's clock starts a
    # little after the client's, by an amount that depends on the configuration, so several end points are tried -
    # then silence until a release datagram at 2.5 T)
    for k in range(6):
        end = 0.0003 + 0.0005 * k
        out.append({"name": "E-edge%d" % k, "dup_burst": True, "strays": [round(1.0 - (end + 0.001 - 0.00005 * j) / T, 6) for j in range(20)] + [2.5],
                    "reply": None, "expect": "timeout"})
    # a rate-limited session: the second request is held back by the limiter for 0.8 T; its reply, 0.5 T after it
    # was sent, is well inside the timeout and must be delivered
    out.append({"name": "P-policed", "policed": True, "seq": [
        {"name": "P1", "strays": [], "reply": 0.05, "expect": "value"},
        {"name": "P2", "strays": [], "reply": 0.5, "expect": "value"},
        {"name": "P3", "strays": [0.2], "reply": 0.6, "expect": "value"}]})
    # signals delivered to the thread that is blocked in the request (sync client): whether the call then raises
    # OSError(EINTR) or carries on, it must not wait a fresh timeout per signal
    out.append({"name": "S-signals", "signals": [0.6, 1.2, 1.8], "strays": [], "reply": None, "expect": "timeout", "sync_only": True})
    # a crowd: 20 other sync sessions of the same process, each in its own thread, are blocked waiting for replies that
    # never come (timeout 2.5 T) while this session makes its request - process-wide resources (pooled buffers, locks)
    # held by waiting sessions must not make this call wait for *their* timeouts
    out.append({"name": "K-crowd-value", "crowd": 20, "strays": [], "reply": 0.2, "expect": "value"})
    out.append({"name": "K-crowd-silent", "crowd": 20, "strays": [], "reply": None, "expect": "timeout"})
    # a long-lived session: 250 exchanges, each of which first skips a non-matching datagram, then an unanswered request -
    # whatever the receive path re-arms or restores per request must not drift
    out.append({"name": "L-after-250-strayed-exchanges", "warmup": 250, "strays": [], "reply": None, "expect": "timeout", "sync_only": False})
    # a sustained run of strays a few milliseconds apart (180 of them, 5 ms apart, until 0.9 T with T = 1 s), then silence
    out.append({"name": "D-dense-strays-then-silence", "T": 1.0, "strays": [round(0.005 * i, 3) for i in range(1, 181)], "reply": None, "expect": "timeout"})
    out.append({"name": "D-dense-strays-then-reply", "strays": [round(0.01 * i, 3) for i in range(1, 41)], "reply": 0.8, "expect": "value"})
    # a timeout above one second: an early stray, then the reply after more than a second but well inside the timeout
    out.append({"name": "T-long-timeout-early-stray", "T": 1.7, "strays": [0.06], "reply": 0.7, "expect": "value"})
    out.append({"name": "H-timeout-then-late-reply", "seq": [
        {"name": "H1a", "strays": [0.6], "reply": None, "expect": "timeout"},
        {"name": "H1b", "strays": [], "reply": 0.75, "expect": "value"},
        {"name": "H1c", "strays": [0.3, 0.6], "reply": None, "expect": "timeout"},
        {"name": "H1d", "strays": [0.2], "reply": 0.8, "expect": "value"}]})
    return out


def run_case(cfg, agent, drv, sch, serial):
    st = {"sent": []}

    def handler(agent, req):
        def f(req):
            if not req.ok:
                return None
            TT = sch.get("T", T)
            evs = [(t * TT, "stray") for t in sch["strays"]]
            if sch["reply"] is not None:
                evs.append((sch["reply"] * TT, "reply"))
            evs.sort()
            out = []
            one = agent.reply(req, [B.enc_varbind(OID, B.enc_int(666))], request_id=(req.request_id + 1) & 0x7FFFFFFF) if sch.get("dup_burst") else None
            for t, kind in evs:
                if kind == "stray" and one is not None:
                    out.append((t, one))
                elif kind == "stray":
                    out.append((t, agent.reply(req, [B.enc_varbind(OID, B.enc_int(666))], request_id=(req.request_id + 1 + len(out)) & 0x7FFFFFFF)))
                else:
                    out.append((t, agent.reply(req, [B.enc_varbind(OID, B.enc_int(serial))])))
            st["t_req"] = time.perf_counter()
            return out
        return agent.discovery_or(req, f)
    if sch.get("warmup"):
        def quick(agent, req):
            def f(req):
                if not req.ok:
                    return None
                return [agent.reply(req, [B.enc_varbind(OID, B.enc_int(665))], request_id=(req.request_id + 1) & 0x7FFFFFFF),
                        agent.reply(req, [B.enc_varbind(OID, B.enc_int(664))])]
            return agent.discovery_or(req, f)
        agent.handler = quick
        for _ in range(sch["warmup"]):
            drv.call("get", B.oid_text(OID))
        agent.wait_idle(timeout=5)
    agent.handler = handler
    n0 = len(agent.log)
    d = Drift()
    d.start()
    if sch.get("signals"):
        import signal
        main_id = threading.main_thread().ident

        def kicker():
            t_start = time.perf_counter()
            for s in sch["signals"]:
                rest = t_start + s * T - time.perf_counter()
                if rest > 0:
                    time.sleep(rest)
                try:
                    signal.pthread_kill(main_id, signal.SIGUSR1)
                except Exception:
                    pass
        threading.Thread(target=kicker, daemon=True).start()
    crowd = []
    if sch.get("crowd"):
        from gufo.snmp import SnmpVersion
        from gufo.snmp.sync_client import SnmpSession as SyncSession
        if "silent_port" not in CROWD:
            import socket
            CROWD["sock"] = socket.socket(socket.AF_INET, socket.SOCK_DGRAM)
            CROWD["sock"].bind(("127.0.0.1", 0))
            CROWD["silent_port"] = CROWD["sock"].getsockname()[1]
        started = []

        def waiter():
            try:
                with SyncSession("127.0.0.1", port=CROWD["silent_port"], community="public", version=SnmpVersion.v2c, timeout=2.5 * T) as ss:
                    started.append(1)
                    ss.get("1.3.6.1.2.1.1.1.0")
            except BaseException:
                pass
        crowd = [threading.Thread(target=waiter, daemon=True) for _ in range(sch["crowd"])]
        for th in crowd:
            th.start()
        t_w = time.perf_counter()
        while len(started) < sch["crowd"] and time.perf_counter() - t_w < 1.0:
            time.sleep(0.005)
        time.sleep(0.05)   # all of them are inside their receive wait now
    t0 = time.perf_counter()
    out = drv.call("get", B.oid_text(OID))
    dur = time.perf_counter() - t0
    for th in crowd:
        th.join(3.0)
    d.stop_flag = True
    d.join(0.5)
    # wait for the agent to finish its schedule, then collect its own send log
    agent.wait_idle(timeout=10)
    tx = [(t / 1e9, kind) for kind, t, _ in agent.log[n0:] if kind == "tx"]
    rel = [round(t - st.get("t_req", t0), 3) for t, _ in tx]
    return out, dur, d.worst, rel


def judge(sch, out, dur, serial):
    bound = sch.get("T", T) + SLACK
    if sch["expect"] == "timeout":
        if out[0] == "ok":
            return "late", "a reply that arrived %.2f x timeout after the request was delivered (value %r); the call must have raised TimeoutError at %.2fs" % (sch["reply"] or 0, out[1], T)
        if sch.get("signals") and out[0] == "exc" and "OSError" in out[1]["mro"] and dur <= bound:
            return None  # interrupted system call surfaced as OSError, in time: allowed
        if not (out[0] == "exc" and out[1]["cls"] == "TimeoutError"):
            return "class", "expected TimeoutError, got %s" % repr(out)[:120]
        if dur > bound:
            return "overrun", "the call took %.2fs with timeout %.2fs (bound %.2fs) while %d non-matching datagrams kept arriving" % (dur, T, bound, len(sch["strays"]))
        return None
    if out != ("ok", serial):
        return "lost", "the matching reply sent at %.2f x timeout was not delivered: %s" % (sch["reply"], repr(out)[:120])
    if dur > bound:
        return "overrun", "delivered after %.2fs, timeout %.2fs" % (dur, T)
    return None


def worker(job):
    import gufo.snmp  # noqa: F401
    prog = runner.Progress(job.get("_progress"))
    cfg = rigp.Cfg.from_json(job["cfg"])
    res = {"cases": 0, "bad": [], "inconclusive": [], "durations": [], "classes": {}}
    agent = rigp.Agent(None, users=[cfg.user_keys()]).start()

    def mk(policed=False, timeout=None):
        agent.handler = lambda a, r: a.discovery_or(r, lambda q: a.reply(q, []))
        kw = {"limit_rps": 1.0 / (0.8 * T)} if policed else {}
        d = driver.Driver(cfg, agent, timeout=timeout or T, **kw).create()
        d.call("open")
        return d
    drv = mk()
    serial = 1000
    flat = []
    for sch in job["schedules"]:
        if "seq" in sch:
            flat += [dict(p, keep_session=True, history=sch["name"], policed=sch.get("policed", False)) for p in sch["seq"]]
        else:
            flat.append(sch)
    import signal
    signal.signal(signal.SIGUSR1, lambda *a: None)
    cur_hist = None
    for sch in flat:
        if sch.get("sync_only") and cfg.client != "sync":
            continue
        prog.mark({"cfg": cfg.key(), "schedule": sch["name"]})
        if sch.get("history") != cur_hist:
            cur_hist = sch.get("history")
            if sch.get("policed") or cur_hist is not None:
                drv.close()
                drv = mk(sch.get("policed", False))
        if sch.get("T"):
            drv.close()
            drv = mk(timeout=sch["T"])
        serial += 1
        out, dur, drift, rel = run_case(cfg, agent, drv, sch, serial)
        if sch.get("T"):
            drv.close()
            drv = mk()
        res["cases"] += 1
        res["classes"][sch["name"]] = 1
        res["durations"].append((sch["name"], round(dur, 3)))
        v = judge(sch, out, dur, serial)
        if v is None and drift <= SLACK / 4:
            pass
        elif v is None:
            pass  # held although the machine was jittery: fine
        else:
            # confirm three times serially; every repetition must violate, drift must be low, and the
            # agent's own send log must show the datagrams went out on schedule
            confirmed, notes = 0, []
            for _ in range(3):
                time.sleep(T * 2)
                drv.close()
                drv = mk(sch.get("policed", False), timeout=sch.get("T"))
                if sch.get("keep_session"):
                    # replay the whole history up to this step on the fresh session
                    for prev in flat:
                        if prev.get("history") == sch["history"]:
                            if prev is sch:
                                break
                            serial += 1
                            run_case(cfg, agent, drv, prev, serial)
                            agent.wait_idle(timeout=5)
                serial += 1
                o2, d2, dr2, rel2 = run_case(cfg, agent, drv, sch, serial)
                v2 = judge(sch, o2, d2, serial)
                want = sorted(sch["strays"] + ([sch["reply"]] if sch["reply"] is not None else []))
                on_time = len(rel2) == len(want) and all(abs(r - w * sch.get("T", T)) < 0.08 for r, w in zip(rel2, want))
                if sch["name"].startswith("E-edge"):
                    on_time = len(rel2) == len(want)  # the burst is sub-millisecond by design
                notes.append((round(d2, 3), round(dr2, 3), on_time, v2[0] if v2 else None))
                if v2 is not None and v2[0] == v[0] and dr2 <= SLACK / 4 and on_time:
                    confirmed += 1
            if confirmed == 3:
                res["bad"].append({"sig": "%s:%s" % (v[0], cfg.client), "msg": "[%s] schedule %s (strays at %s x T, reply at %s x T): %s ; repeats (duration, drift, on-schedule, verdict): %s" % (
                    cfg.key(), sch["name"], sch["strays"], sch["reply"], v[1], notes), "cfgkey": cfg.key(), "schedule": sch})
            else:
                res["inconclusive"].append("[%s] %s: %s - not confirmed 3/3 (%s)" % (cfg.key(), sch["name"], v[1][:80], notes))
        if out[0] == "exc" and not sch.get("keep_session"):
            time.sleep(T * 2.2)  # let the rest of the schedule drain, then start clean
            drv.close()
            drv = mk()
    agent.stop()
    return res


def main():
    a = runner.main_args()
    chk = runner.Check(PID, "fault_enumeration", a.tier, a.seed)
    chk.rule = ("timeout T = 0.3 s. Schedules: A(k) k in {0,1,3,6(,2,12)} non-matching datagrams at 0.6T, 1.2T, ... and silence -> TimeoutError within "
                "T + 0.25 s; B(k) the same followed by the matching reply after the deadline (>= 1.5T) -> TimeoutError, the late reply must not "
                "be delivered; C(k) up to 5 strays at 0.12T intervals then the matching reply at 0.75T -> delivered. x {sync, async} x "
                "{v1, v2c, v3 noAuth, v3 auth+priv}. Guards: a 10 ms-sleep drift probe (drift > slack/4 -> inconclusive), three serial "
                "repetitions that must all violate with the agent's send log on schedule. distinct = schedule names x configuration.")
    chk.assumptions = ["wall-clock verdicts are guarded, not exact", "the check runs its workers two at a time to keep the machine quiet"]
    cfgs = []
    for cl in ("sync", "async"):
        cfgs += [rigp.Cfg("v1", client=cl), rigp.Cfg("v2c", client=cl), rigp.Cfg("v3", client=cl, engine_given=True),
                 rigp.Cfg("v3", auth="sha1", priv="aes", client=cl)]
    if a.tier == "quick":
        cfgs = [c for c in cfgs if c.version != "v1"]
    sch = schedules(a.tier)
    jobs = [{"seed": a.seed, "cfg": c.to_json(), "schedules": sch} for c in cfgs]
    outs = runner.run_workers("checks.c18", "worker", jobs, variant="rel", timeout=3000, nproc=3)
    tot = 0
    durs = {}
    for o in outs:
        res = o["result"]
        cfgkey = rigp.Cfg.from_json(o["job"]["cfg"]).key()
        if res is None:
            if o["rc"] == "timeout":
                chk.inconc("worker timeout at %s" % o["progress"])
            else:
                chk.violation("abort:rigp", "worker died rc=%s: %s" % (o["rc"], o["stderr"][-300:]), {})
            continue
        if "harness_error" in res:
            raise runner.HarnessError(res["harness_error"])
        for x in res["inconclusive"][:4]:
            chk.inconc(x)
        tot += res["cases"]
        for c in res["classes"]:
            chk.distinct.add("%s|%s" % (cfgkey, c))
        durs[cfgkey] = res["durations"]
        if res["durations"]:
            chk.sample({"cfg": cfgkey, "timeout_s": T, "observed_call_durations_s": res["durations"][:8]}, limit=4)
        for b in res["bad"]:
            chk.violation(b["sig"], b["msg"], b)
    chk.seen(tot)
    # degenerate timeouts: a positive timeout below the socket timer's resolution (1 us) is still a timeout - the call
    # must come back (TimeoutError), not wait for ever.  Each probe is its own process under a 6 s watchdog; only a
    # process that is still blocked after 6 s on all three attempts is a verdict.
    import subprocess
    stage = build.stage_python("rel")
    env = build.python_env("rel", stage)
    probe = ("import sys, socket\n"
             "from gufo.snmp import SnmpVersion\n"
             "from gufo.snmp.sync_client import SnmpSession\n"
             "s = socket.socket(socket.AF_INET, socket.SOCK_DGRAM); s.bind(('127.0.0.1', 0))\n"
             "with SnmpSession('127.0.0.1', port=s.getsockname()[1], community='public', version=SnmpVersion.v2c, timeout=float(sys.argv[1])) as x:\n"
             "    try:\n"
             "        x.get('1.3.6.1.2.1.1.1.0'); print('returned a value')\n"
             "    except TimeoutError: print('TimeoutError')\n"
             "    except Exception as e: print('other:', type(e).__name__)\n")
    tiny = {}
    for tmo in ("5e-7", "1e-9", "9.99e-7", "1e-6", "2e-3"):
        outcomes = []
        for _ in range(3):
            try:
                pr = subprocess.run([build.REAL_PY, "-c", probe, tmo], env=env, capture_output=True, text=True, timeout=6)
                outcomes.append(pr.stdout.strip() or ("rc=%s %s" % (pr.returncode, pr.stderr.strip()[-120:])))
                break
            except subprocess.TimeoutExpired:
                outcomes.append("still blocked after 6 s")
        tiny[tmo] = outcomes[-1]
        chk.distinct.add("tiny-timeout:%s" % tmo)
        chk.seen(1)
        if outcomes == ["still blocked after 6 s"] * 3:
            chk.violation("never-returns:sync", "sync get() with timeout=%s s against a silent agent did not return within 6 s (3 attempts out of 3)" % tmo, {"timeout": tmo})
        elif outcomes[-1] not in ("TimeoutError",):
            chk.inconc("tiny timeout %s: %s" % (tmo, outcomes))
    chk.extra["tiny_timeouts"] = tiny
    chk.extra["durations_s"] = durs
    chk.extra["exhaustive"] = True
    chk.floor("cases", tot, 50)
    sys.exit(chk.finish())


if __name__ == "__main__":
    try:
        main()
    except (runner.HarnessError, build.BuildError) as e:
        print("HARNESS-ERROR: %s" % e)
        sys.exit(2)
