"""C16 - Decoding an element reads exactly its declared extent.

Rig R (metamorphic): for every typed decoder and message layer, from_ber(x || s)
must equal (s left over, value(x)) for encodings x that decode alone and any
suffix s; nestings whose inner length is raised beyond what the parent has
left (while the bytes physically exist), and bytes after the top-level message,
must be rejected.  Rig P: a varbind followed by extra octets / more varbinds
delivers the same value as alone."""
import random
import sys

from vlib import ber_ref as B
from vlib import build, corpus, driver, model as M, rigp, runner

PID = "C16"
TYPED = {"Bool": "bool", "Int": "int", "Null": "null", "OctetString": "octetstring", "Oid": "oid", "ObjectDescriptor": "objectdescriptor",
         "Real": "real", "IpAddress": "ipaddress", "Counter32": "counter32", "Gauge32": "gauge32", "TimeTicks": "timeticks",
         "UInteger32": "uinteger32", "Counter64": "counter64", "Opaque": "opaque"}


def suffixes(rng, kind):
    out = [b"", bytes([rng.choice([0x00, 0x01, 0x02, 0x05, 0x30, 0x7f, 0x80, 0x81, 0xff])]), bytes([rng.choice([0x80, 0x84, 0x9f, 0xa2, 0xff]), rng.randrange(256)]),
           M.gen_value(rng)["tlv"], bytes(rng.randrange(256) for _ in range(rng.randint(2, 64)))]
    if kind == "Real":
        out += [rng.choice([b"7", b"0", b"e5", b".5", b"E-1", b"99999", b"\x00", b"\x01\x01"])]
    return out


TAGS = {"Bool": 0x01, "Int": 0x02, "Null": 0x05, "OctetString": 0x04, "Oid": 0x06, "ObjectDescriptor": 0x07, "Real": 0x09, "IpAddress": 0x40,
        "Counter32": 0x41, "Gauge32": 0x42, "TimeTicks": 0x43, "UInteger32": 0x47, "Counter64": 0x46, "Opaque": 0x44}


def gen_elem(rng):
    """-> (decoder name, encoding x, class)"""
    r = rng.random()
    if r < 0.06:
        # contents of zero or one octet for every decoder (non-canonical, but several are accepted): a decoder that peeks
        # at "its first content octet" reads the neighbour's when there is none
        kind = rng.choice(sorted(TAGS))
        x = bytes([TAGS[kind], 0]) if rng.random() < 0.7 else bytes([TAGS[kind], 1, rng.choice([0x00, 0x7F, 0x80, 0xFF])])
        return (TYPED[kind] if rng.random() < 0.5 else "value"), x, "short:" + kind, kind
    if r < 0.75:
        v = M.gen_value(rng)
        if rng.random() < 0.5:
            return "value", v["tlv"], "value:" + v["cls"].split(":")[0] + (":" + v["cls"].split(":")[1] if v["kind"] == "Real" else ""), v["kind"]
        return TYPED[v["kind"]], v["tlv"], "typed:" + v["cls"].split(":")[0] + (":" + v["cls"].split(":")[1] if v["kind"] == "Real" else ""), v["kind"]
    if r < 0.82:
        c = bytes(rng.randrange(128) for _ in range(rng.randint(1, 12)))
        return "relativeoid", B.tlv(B.RELOID, c), "typed:RelOid", "RelOid"
    if r < 0.91:
        items = [M.gen_value(rng)["tlv"] for _ in range(rng.randint(0, 4))]
        return "sequence", B.enc_seq(items, form=rng.choice([None, None, 2])), "typed:Sequence", "Seq"
    items = [M.gen_value(rng)["tlv"] for _ in range(rng.randint(0, 3))]
    return "option", B.enc_seq(items, tag=rng.choice([0xA0, 0xA1, 0xA2, 0xA5, 0xA8, 0x30])), "typed:Option", "Opt"


def lines_for(name, data):
    return ("value\t%s" % data.hex()) if name == "value" else ("typed\t%s\t%s" % (name, data.hex()))


def norm(name, o):
    """(status, rest, rendering)"""
    if o[0] != "ok":
        return (o[0], None, o[1] if len(o) > 1 else "")
    return ("ok", int(o[1]), o[2] if len(o) > 2 else "")


def alias_lengths(ln):
    """Long-form length fields declaring ln + m * 2^(8j): far more than any datagram holds, but equal to ln for code that
    keeps only the low 8 / 16 / 32 / 64 bits of a length."""
    return [bytes([0x82, 1, ln & 0xFF]) if ln < 256 else None, bytes([0x83, 1]) + (ln & 0xFFFF).to_bytes(2, "big"),
            bytes([0x85, 1]) + ln.to_bytes(4, "big"), bytes([0x85, 0x80]) + ln.to_bytes(4, "big"), bytes([0x88, 0, 0, 0, 7]) + ln.to_bytes(4, "big"),
            bytes([0x89, 1]) + ln.to_bytes(8, "big"), bytes([0x88, 1, 0, 0, 0]) + ln.to_bytes(4, "big")]


def tamper_cases(rng, msgs):
    """Raise an inner short-form length so that the element runs past its parent
    while the bytes physically exist in the datagram."""
    out = []
    for label, m in msgs:
        if not label.startswith(("v1-", "v2c-", "v3-")) or "report" in label:
            continue  # (the body of a Report PDU is opaque to the library: it is never decoded, so nothing inside it is judged)
        ver = "v1" if label.startswith("v1-") else "v2c" if label.startswith("v2c-") else "v3"
        els = []

        def walk(s, e, parent_end, depth):
            off, idx = s, 0
            while off < e:
                try:
                    tag, cs, ce = B.read_tlv(m[:e], off, strict=False)
                except B.StrictError:
                    return
                els.append((off, cs, ce, e))
                # descend into constructed elements, and into msgSecurityParameters only
                # (the OCTET STRING that is the third child of a v3 message)
                if (tag & 0x20 or (tag == 0x04 and depth == 1 and idx == 2 and ver == "v3")) and depth < 8:
                    walk(cs, ce, e, depth + 1)
                off = ce
                idx += 1
        walk(0, len(m), len(m), 0)
        # (c) the outermost length replaced by one that aliases it modulo 2^8 .. 2^64
        if els and els[0][0] == 0:
            off, cs, ce, pend = els[0]
            for al in alias_lengths(ce - cs):
                if al is not None:
                    out.append((ver, m[:1] + al + m[cs:], "tamper-alias:%s" % label))
        # (b) lower the declared length of a constructed element: its children now run past it while
        # the bytes still exist in the enclosing element
        for off, cs, ce, pend in els:
            if cs - off != 2 or not (m[off] & 0x20) or ce - cs == 0:
                continue
            ln = ce - cs
            for d in sorted({1, 2, 3, ln // 2, ln}):
                if 0 < d <= ln:
                    t = bytearray(m)
                    t[off + 1] = ln - d
                    out.append((ver, bytes(t), "tamper-lower:%s" % label))
        for off, cs, ce, pend in els:
            if cs - off != 2 or off == 0:
                continue  # short form only, not the top element
            ln = ce - cs
            room_parent = pend - ce          # bytes left in the parent after this element
            room_total = len(m) - ce         # bytes physically present after this element
            for d in (room_parent + 1, room_parent + 2, room_total):
                if d <= room_parent or d > room_total or ln + d > 127 or d <= 0:
                    continue
                t = bytearray(m)
                t[off + 1] = ln + d
                out.append((ver, bytes(t), "tamper:%s" % label))
    return out


def rig_r(chk, tier, seed):
    plans = [("rel", 16, 5000), ("dbg", 8, 1500), ("asan", 8, 1000)] if tier == "quick" else [("rel", 16, 150000), ("dbg", 16, 30000), ("asan", 16, 20000)]
    st = {}
    items = corpus.build(seed)
    for variant, nsh, n in plans:
        build.build(variant)

        def one(sh):
            rng = random.Random(seed * 8191 + sh)
            cases, lines = [], []
            for _ in range(n):
                name, x, cls, kind = gen_elem(rng)
                for s in suffixes(rng, kind):
                    cases.append((name, x, s, cls))
                    lines.append(lines_for(name, x + s))
                if len(x) >= 2 and x[1] < 0x80 and x[1] == len(x) - 2 and rng.random() < 0.3:
                    for al in alias_lengths(x[1]):
                        if al is not None:
                            cases.append((name, x[:1] + al + x[2:], "ALIAS", cls))
                            lines.append(lines_for(name, x[:1] + al + x[2:]))
            p, out = runner.ldrive(variant, lines)
            return cases, p, out
        cnt = 0
        skipped = [0]
        for cases, p, out in runner.parallel(one, range(nsh)):
            if len(out) != len(cases):
                reps = runner.asan_reports(p.stderr.decode(errors="replace"))
                chk.violation("rigr:died:%s" % (reps[0][1] if reps else variant), "ldrive %s died: %s" % (variant, p.stderr.decode(errors="replace")[-300:]), {})
                continue
            base = None
            for (name, x, s, cls), o in zip(cases, out):
                cnt += 1
                r = norm(name, o)
                if r[0] == "panic":
                    chk.violation("panic:%s" % r[2].split(": ")[0].replace("/repo/", ""), "%s(%s) panicked: %s" % (name, (x + s).hex()[:80], r[2][:160]), {"x": x.hex(), "s": s.hex()})
                    continue
                if s == "ALIAS":
                    # declared length = real length + m * 2^(8j): runs far past the input, must be refused
                    if r[0] == "ok":
                        chk.violation("alias:%s" % cls, "[%s] %s(%s): a length field declaring far more than the input holds was accepted (value %s)" % (
                            variant, name, x.hex()[:60], r[2][:40]), {"rig": "R", "variant": variant, "decoder": name, "x": x.hex()})
                    chk.distinct.add("R:alias")
                    continue
                if s == b"":
                    base = r
                    if r[0] != "ok":
                        # outside the quantifier's domain (x must decode alone); whether it should is C02's question
                        skipped[0] += 1
                    elif r[1] != 0:
                        chk.violation("rest:%s" % cls, "[%s] %s(%s) alone leaves %d octets" % (variant, name, x.hex()[:60], r[1]), {"decoder": name, "x": x.hex()})
                    chk.distinct.add("R:" + cls)
                    continue
                if base is None or base[0] != "ok":
                    continue
                if cnt % 9973 == 7:
                    chk.sample({"decoder": name, "x": x.hex()[:60], "s": s.hex()[:30], "alone": base[2][:40], "with_suffix": r[2][:40], "left_over": r[1]}, limit=5)
                if r[0] != "ok" or r[1] != len(s) or r[2] != base[2]:
                    chk.violation("extent:%s" % cls,
                                  "[%s] %s(x||s) with x=%s s=%s gave %s rest=%s value %s ; alone the value is %s" % (
                                      variant, name, x.hex()[:60], s.hex()[:40], r[0], r[1], r[2][:60], base[2][:60]),
                                  {"rig": "R", "variant": variant, "decoder": name, "x": x.hex(), "s": s.hex()})
        # message layers: trailing bytes and tampered nestings must be rejected
        rng = random.Random(seed)
        lines, meta = [], []
        for label, m in items:
            if not label.startswith(("v1-", "v2c-", "v3-")):
                continue
            ver = "v1" if label.startswith("v1-") else "v2c" if label.startswith("v2c-") else "v3"
            lines.append("msg\t%s\t%s" % (ver, m.hex()))
            meta.append(("alone", label, m))
            for s in (b"\x00", b"\x05\x00", b"\x30\x00", bytes(rng.randrange(256) for _ in range(rng.randint(1, 40))), m):
                lines.append("msg\t%s\t%s" % (ver, (m + s).hex()))
                meta.append(("trailing", label, m + s))
        for ver, t, label in tamper_cases(rng, items):
            lines.append("msg\t%s\t%s" % (ver, t.hex()))
            meta.append(("tamper", label, t))
        p, out = runner.ldrive(variant, lines)
        if len(out) != len(lines):
            chk.violation("rigr:died", "ldrive %s died on message layer cases" % variant, {})
        else:
            alone_ok = {}
            for (k, label, m), o in zip(meta, out):
                cnt += 1
                chk.distinct.add("R:msg:%s" % k)
                if o[0] == "panic":
                    chk.violation("panic:%s" % o[1].split(": ")[0].replace("/repo/", ""), "message decoder panicked on %s: %s" % (m.hex()[:80], o[1][:120]), {"m": m.hex()})
                elif k == "alone":
                    alone_ok[label] = o[0] == "ok"
                elif o[0] == "ok" and alone_ok.get(label.replace("tamper-lower:", "").replace("tamper-alias:", "").replace("tamper:", ""), True):
                    chk.violation("msg-%s" % (label.split(":")[0] if k == "tamper" else k), "[%s] %s message (%s) was accepted: %s" % (variant, k, label, m.hex()[:160]),
                                  {"rig": "R", "variant": variant, "kind": k, "label": label, "m": m.hex()})
        st[variant] = {"cases": cnt, "x_not_decodable_alone_skipped": skipped[0]}
        chk.seen(cnt)
    chk.extra["rig_r"] = st


def worker(job):
    import gufo.snmp  # noqa: F401
    rng = random.Random(job["seed"])
    cfg = rigp.Cfg.from_json(job["cfg"])
    res = {"cases": 0, "bad": [], "classes": {}}
    st = {}

    def handler(agent, req):
        def f(req):
            if not req.ok:
                return None
            if st.get("overrun"):
                d, val = st["overrun"]
                sc = B.enc_scoped(agent.engine_id, b"", B.enc_pdu(B.PDU_RESPONSE, req.request_id, 0, 0,
                                                                 [B.enc_varbind((req.oids() or [(1, 3)])[0], B.enc_octets(val))]))
                return agent.reply(req, scoped_raw=sc[:-d], des_truncate=True)
            return agent.reply(req, st["vbs"])
        return agent.discovery_or(req, f)
    agent = rigp.Agent(handler, users=[cfg.user_keys()]).start()
    drv = driver.Driver(cfg, agent, timeout=0.3 if cfg.priv else 2.0).create()
    drv.call("open")
    kinds = [k for k in M.KINDS if k != "Null"]
    for i in range(job["n"]):
        v = M.gen_value(rng, kinds)
        oid = M.gen_oid(rng)
        extra = rng.choice([b"", M.gen_value(rng)["tlv"], bytes(rng.randrange(256) for _ in range(rng.randint(1, 20))), b"7", b"\x00"])
        vb = B.enc_seq([B.enc_oid(oid), v["tlv"], extra]) if extra else B.enc_varbind(oid, v["tlv"])
        others = [B.enc_varbind(oid + (k + 1,), M.gen_value(rng, kinds)["tlv"]) for k in range(rng.choice([0, 1, 3]))]
        st["vbs"] = [vb] + others
        out = drv.call("get_many", [B.oid_text(oid)])
        res["cases"] += 1
        res["classes"][v["cls"].split(":")[0]] = 1
        key = B.oid_text(oid)
        good = (out[0] == "ok" and key in out[1] and M.same_value(v["py"], out[1][key])) or \
               (out[0] == "exc" and "DecodeError" in out[1]["cls"] and extra != b"")
        if out[0] == "exc" and out[1]["cls"] == "TimeoutError":
            continue
        if cfg.priv and i % 6 == 5:
            # after that honest exchange (the cipher's private buffer now holds its plaintext): a reply whose
            # scoped PDU declares d octets more than the ciphertext carries must never produce a value
            d = rng.randrange(1, 16)
            val = bytes(rng.randrange(256) for _ in range(rng.randrange(20, 40)))
            sc = B.enc_scoped(agent.engine_id, b"", B.enc_pdu(B.PDU_RESPONSE, 0, 0, 0, [B.enc_varbind(oid, B.enc_octets(val))]))
            st["overrun"] = (d, val)
            o2 = drv.call("get_many", [B.oid_text(oid)])
            st["overrun"] = None
            res["cases"] += 1
            res["classes"]["overrun"] = 1
            if o2[0] == "ok" and o2[1]:
                if len(res["bad"]) < 50:
                    res["bad"].append({"cls": "overrun", "msg": "%s: an encrypted reply whose scoped PDU declares %d octets more than were sent was accepted and delivered %s" % (
                        cfg.key(), d, repr(o2)[:160]), "tlv": "", "extra": ""})
            drv.close()
            drv = driver.Driver(cfg, agent, timeout=0.3).create()
            drv.call("open")
        if not good and len(res["bad"]) < 50:
            res["bad"].append({"cls": v["cls"], "msg": "%s: value %s followed by %s inside its varbind and %d more varbinds was delivered as %s (alone: %r)" % (
                cfg.key(), v["tlv"].hex()[:40], extra.hex()[:30], len(others), repr(out)[:120], M.jv(v["py"])), "tlv": v["tlv"].hex(), "extra": extra.hex()})
    agent.stop()
    return res


def rig_p(chk, tier, seed):
    n = 150 if tier == "quick" else 4000
    jobs = [{"seed": seed * 911 + i, "cfg": c.to_json(), "n": n} for i, c in enumerate(rigp.base_cfgs(("sync", "async")))]
    outs = runner.run_workers("checks.c16", "worker", jobs, variant="rel", timeout=3000)
    tot = 0
    for o in outs:
        res = o["result"]
        if res is None:
            if o["rc"] != "timeout":
                chk.violation("abort:rigp", "worker died rc=%s: %s" % (o["rc"], o["stderr"][-300:]), {})
            else:
                chk.inconc("worker timeout")
            continue
        if "harness_error" in res:
            raise runner.HarnessError(res["harness_error"])
        tot += res["cases"]
        for c in res["classes"]:
            chk.distinct.add("P:" + c)
        for b in res["bad"]:
            chk.violation("extent-p:%s" % b["cls"].split(":")[0], "[Rig P] " + b["msg"], b)
    chk.seen(tot)
    chk.extra["rig_p"] = {"responses": tot}


def main():
    a = runner.main_args()
    chk = runner.Check(PID, "exploration", a.tier, a.seed)
    chk.rule = ("x ranges over encodings that decode alone, from the C02 value generator, for each typed decoder (bool, int, null, octetstring, "
                "oid, objectdescriptor, real, ipaddress, counter32/64, gauge32, timeticks, uinteger32, opaque, relativeoid, sequence, option) "
                "and SnmpValue::from_ber; s over {empty, one interesting octet, a valid TLV, 2..64 random octets, digits/'e'/'.' for REAL}. "
                "Oracle (metamorphic): from_ber(x||s) == (len(s) left, value(x)). Message layers: every corpus message followed by 1..n extra "
                "octets, and every short-form inner length raised past its parent while the bytes exist, must be rejected. Rig P: a value "
                "followed by extra octets inside its varbind and by further varbinds is delivered unchanged (or the reply is rejected). "
                "distinct = (decoder, value class) classes.")
    chk.assumptions = ["value rendering through verif::typed_from_ber / verif::project is faithful (feature 'verif')"]
    rig_r(chk, a.tier, a.seed)
    rig_p(chk, a.tier, a.seed)
    if a.tier == "thorough":
        rng = random.Random(a.seed)
        seeds = []
        for i in range(200):
            name, x, cls, kind = gen_elem(rng)
            names = ["bool", "int", "null", "octetstring", "oid", "objectdescriptor", "real", "ipaddress", "counter32", "gauge32", "timeticks",
                     "uinteger32", "counter64", "opaque", "relativeoid", "sequence", "option", "value"]
            seeds.append(bytes([names.index(name)]) + x + rng.choice(suffixes(rng, kind)))
        r = runner.run_fuzz("fuzz_extent", 6000000, a.seed, seeds=seeds, max_len=300)
        chk.extra["fuzz_extent"] = {"execs": r["execs"], "crashes": len(r["crashes"])}
        chk.seen(r["execs"])
        for w in r["inconclusive"]:
            chk.inconc(w)
        for sig, art, se in r["crashes"]:
            chk.violation("fuzz:" + sig, "libFuzzer fuzz_extent: input %s : %s" % (art[:160], se[-400:].replace("\n", " | ")), {"input": art})
    sys.exit(chk.finish())


if __name__ == "__main__":
    try:
        main()
    except (runner.HarnessError, build.BuildError) as e:
        print("HARNESS-ERROR: %s" % e)
        sys.exit(2)
