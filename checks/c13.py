"""C13 - Engine discovery and time sync follow the agent.

Rig P: scripted v3 agent whose boots/time change on every reply; sessions with
and without a configured engine id x {noAuth, MD5, SHA-1} x {none, DES, AES} x
key types x {sync, async}; histories of context entry, explicit refresh and
mixed requests with non-matching datagrams interleaved.  History oracle at the
agent: every request carries the engine id learned/configured and the boots/
time of the most recent *accepted* agent message; MAC valid and payload
decryptable under keys the reference localizes to that engine id."""
import sys

from checks import c03
from vlib import build, crypto_ref as C, runner

PID = "C13"
ASPECTS = ["engine", "boots_time", "user", "auth_flag", "priv_flag", "flags", "mac", "priv", "salt", "strict", "panic", "count", "outcome",
           "pdu_tag", "oids", "deaf", "create"]


def main():
    a = runner.main_args()
    chk = runner.Check(PID, "exploration", a.tier, a.seed)
    chk.rule = ("agent identities: engine ids of 5..32 octets, boots/time drawn from every INTEGER width 1..4 octets up to 2^31-1 and changed on "
                "every reply; sessions x {engine id given, discovered} x {noAuth, MD5, SHA-1} x {none, DES, AES} x {password, master, localized} "
                "x {sync, async}; histories: with-entry (discovery + time-sync probe), explicit refresh(), 1..N mixed requests, strays with "
                "other boots/time interleaved (must not be adopted), unanswered requests. Before discovery: empty engine id, boots=time=0, "
                "default (empty) user, no auth/priv, reportable empty GET. distinct = configurations and header geometries observed.")
    chk.assumptions = ["'accepted' is decided by the model of C04: matching user / engine id / msgID / request-id",
                       "the discovery Report is answered unauthenticated, the time-sync Report authenticated and in clear, as net-snmp does"]
    C.self_test(cross=False)
    variants = ["rel"] if a.tier == "quick" else ["rel", "dbg"]
    stats = {}
    for variant in variants:
        steps = 260 if a.tier == "quick" else (8000 if variant == "rel" else 1500)
        knobs = {"sessions": 8, "versions": ["v3"], "ident_change": True, "beh_weights": [64, 4, 8, 24], "timeout": 0.6,
                 "ops": ["get", "get_many", "getnext", "getbulk", "fetch", "refresh", "refresh", "get"]}
        jobs = [{"seed": a.seed * 99971 + i, "steps": steps, "aspects": ASPECTS, "knobs": dict(knobs, same_octets=0.45 if i % 2 else 0.0)} for i in range(16)]
        outs = runner.run_workers("vlib.scenario", "worker", jobs, variant=variant, timeout=3000)
        stats[variant] = c03.collect(chk, outs, variant, PID)
        chk.seen(stats[variant]["requests"])
    chk.extra["rig_p"] = stats
    ncfg = len([d for d in chk.distinct if d.startswith("cfg:")])
    chk.extra["configurations"] = ncfg
    chk.floor("v3_datagrams_judged", sum(s["requests"] for s in stats.values()), 4000)
    chk.floor("configurations", ncfg, 40)
    sys.exit(chk.finish())


if __name__ == "__main__":
    try:
        main()
    except (runner.HarnessError, build.BuildError) as e:
        print("HARNESS-ERROR: %s" % e)
        sys.exit(2)
