"""C10 - Unauthenticated or forged v3 replies are never accepted.

Fault enumeration: for sessions holding an auth key, otherwise-matching replies
x MAC {valid, zero, random, one bit flipped in each of the 12 octets, absent,
11/13 octets} x auth flag x priv flag x body {GetResponse, Report} x digest x
cipher x {encrypted, plaintext}.  Each forged datagram carries a unique serial
and is followed by the genuine reply; the delivered serial names the datagram
that was accepted."""
import random
import sys

from vlib import ber_ref as B
from vlib import build, driver, rigp, runner

PID = "C10"
MACS = ["valid", "zero", "random", "empty", "len11", "len13"] + ["flip:%d" % (8 * i + (i * 3) % 8) for i in range(12)]
OID = (1, 3, 6, 1, 2, 1, 1, 3, 0)


def forgery_class(cfg, mac, aflag, pflag, enc, anon=None):
    """None = a legitimate message (must be accepted); else the class of forgery."""
    if anon:
        return "anonymous" if isinstance(anon, str) else "padded_credentials"
    if not aflag:
        return "flag_noauth"
    if mac != "valid":
        return {"zero": "mac_zero", "random": "mac_random", "empty": "mac_empty", "len11": "mac_badlen", "len13": "mac_badlen"}.get(mac, "mac_bitflip")
    if cfg.priv and not enc:
        return "plaintext_when_priv"
    # MAC valid, auth flag set, and not in clear when privacy is configured: the statement
    # allows delivery (an inconsistent priv *flag* alone is not one of the listed reasons to drop)
    return None


def worker(job):
    import gufo.snmp  # noqa: F401
    prog = runner.Progress(job.get("_progress"))
    cfg = rigp.Cfg.from_json(job["cfg"])
    res = {"cases": 0, "bad": [], "classes": {}, "inconclusive": [], "legit_accepted": 0, "forged_rejected": 0, "reports": 0}
    st = {"serial": job["seed"] * 100000, "rng": random.Random(job["seed"]), "timeouts": 0}

    def handler(agent, req):
        def f(req):
            if not req.ok:
                st["agent_err"] = req.err
                return None
            c = st["case"]
            # a realistic engine clock: time advances; now and then the agent "restarts" (boots+1, time back to a small value)
            if st["rng"].random() < 0.15:
                agent.boots, agent.time = agent.boots + 1, st["rng"].randrange(0, 50)
            else:
                agent.time += st["rng"].randrange(0, 400)
            st["serial"] += 2
            forged_serial, genuine_serial = st["serial"], st["serial"] + 1
            st["serials"] = (forged_serial, genuine_serial)
            flags = (1 if c["aflag"] else 0) | (2 if c["pflag"] else 0)
            # whatever the request looked like, the agent answers as the configured user at the configured level
            me = dict(user=cfg.user.encode(), auth_user=agent.users[cfg.user.encode()])
            kw = dict(mac=c["mac"], flags=flags, encrypt=c["enc"], **me)
            if c.get("padded"):
                # credentials that differ from the session's only by a tail of exactly 256 / 512 octets, no valid MAC
                if c["padded"][0] == "user":
                    kw.update(user=cfg.user.encode() + b"q" * c["padded"][1], mac="zero")
                else:
                    kw.update(engine_id=agent.engine_id + bytes(c["padded"][1]), mac="zero")
            if c.get("anon"):
                # no user name at all, no MAC, in clear; msgFlags 0x04 (reportable only - the header of a discovery Report) or 0x00
                kw.update(user=b"", flags=4 if c["anon"] == "reportable" else 0, mac="empty", encrypt=False)
            if c["body"] == "report":
                forged = agent.report(req, rigp.REPORT_WRONG_DIGEST, counter=forged_serial & 0x7FFFFFFF, **kw)
            else:
                forged = agent.reply(req, [B.enc_varbind(OID, B.enc_int(forged_serial))], **kw)
            genuine = agent.reply(req, [B.enc_varbind(OID, B.enc_int(genuine_serial))], flags=1 | (2 if cfg.priv else 0), encrypt=bool(cfg.priv), mac="valid", **me)
            return [forged, genuine]
        return agent.discovery_or(req, f)
    agent = rigp.Agent(handler, users=[cfg.user_keys()]).start()

    def mk():
        st["case"] = {"mac": "valid", "aflag": True, "pflag": bool(cfg.priv), "enc": bool(cfg.priv), "body": "response"}
        d = driver.Driver(cfg, agent, timeout=1.0).create()
        if not cfg.engine_given and st["rng"].random() < 0.5:
            # the very first discovery probe is lost; the context entry is retried on the same session
            saved, agent.handler = agent.handler, None
            quick = driver.Driver(cfg, agent, timeout=0.15).create()
            quick.call("open")
            agent.handler = saved
            quick.call("open")
            return quick
        d.call("open")
        return d
    drv = mk()
    for ci, c in enumerate(job["cases"]):
        prog.mark({"cfg": cfg.key(), "case": ci})
        st["case"] = c
        out = drv.call("get", B.oid_text(OID))
        res["cases"] += 1
        fc = forgery_class(cfg, c["mac"], c["aflag"], c["pflag"], c["enc"], c.get("anon") or c.get("padded"))
        cls = "%s:%s" % (c["body"], fc or "legitimate")
        res["classes"][cls] = res["classes"].get(cls, 0) + 1
        if "agent_err" in st:
            res["inconclusive"].append("agent could not parse: %s" % st.pop("agent_err"))
            continue
        if out[0] == "exc" and out[1]["cls"] == "TimeoutError":
            # every case ends with a genuine reply, so a timeout means it was not delivered: load - or the client
            # has gone deaf (e.g. drops everything after an agent restart).  Three in a row on one session, each
            # answered by the agent within 0.3 s, is a verdict; fewer is inconclusive.
            log = agent.log[-6:]
            rx = [t for k, t, _ in log if k == "rx"]
            tx = [t for k, t, _ in log if k == "tx"]
            answered = bool(rx and tx and tx[-1] - rx[-1] < min(0.3, 0.4 * drv.timeout) * 1e9 and tx[-1] > rx[-1])
            st["timeouts"] = st["timeouts"] + 1 if answered else 0
            if st["timeouts"] >= 3:
                if len(res["bad"]) < 400:
                    res["bad"].append({"sig": "genuine-dropped", "msg": "[%s] three consecutive requests timed out although the agent sent a genuine, correctly "
                                       "authenticated reply to each well within the timeout (engine boots/time now %d/%d)" % (cfg.key(), agent.boots, agent.time),
                                       "case": c, "cfgkey": cfg.key()})
                st["timeouts"] = 0
                drv.close()
                drv = mk()
            else:
                res["inconclusive"].append("timeout on %s (answered=%s)" % (cls, answered))
            continue
        st["timeouts"] = 0
        fs, gs = st.get("serials", (None, None))
        bad = None
        if c["body"] == "report":
            res["reports"] += 1
            # Reports may be accepted without authentication: either outcome (AuthError from the report, or the genuine value) is allowed
            if not ((out[0] == "exc" and "PySnmpAuthError" in out[1]["mro"]) or out == ("ok", gs) or (out[0] == "exc" and "DecodeError" in out[1]["cls"])):
                bad = ("report-odd", "forged Report (%s) then genuine reply: got %s" % (fc, repr(out)[:140]))
        elif fc is None and (c["pflag"] != bool(cfg.priv)):
            # legitimate but with an inconsistent priv flag: either datagram may be the one delivered
            if out not in (("ok", fs), ("ok", gs)):
                bad = ("odd-outcome:privflag", "got %s" % repr(out)[:120])
        elif fc is None:
            if out == ("ok", fs):
                res["legit_accepted"] += 1
            else:
                bad = ("genuine-dropped", "a correctly authenticated%s reply was not delivered: got %s (its serial %s)" % (
                    " and encrypted" if cfg.priv else "", repr(out)[:120], fs))
        else:
            if out == ("ok", gs):
                res["forged_rejected"] += 1
            elif out == ("ok", fs):
                bad = ("forged-accepted:" + fc, "reply with MAC=%s auth-flag=%d priv-flag=%d %s was delivered to the caller (serial %s); the genuine reply was queued behind it" % (
                    c["mac"], c["aflag"], c["pflag"], "encrypted" if c["enc"] else "in clear", fs))
            elif out[0] == "exc" and ("DecodeError" in out[1]["cls"]):
                # a malformed forgery may end the call with a decode error (C04 semantics); not an acceptance
                res["forged_rejected"] += 1
            else:
                bad = ("odd-outcome:" + fc, "forged (%s) then genuine: got %s, forged serial %s genuine %s" % (fc, repr(out)[:120], fs, gs))
        if len(res.setdefault("samples", [])) < 2 and ci % 45 == 5:
            res["samples"].append({"cfg": cfg.key(), "forged": c, "forgery_class": fc or "legitimate", "forged_serial": fs, "genuine_serial": gs, "get_returned": repr(out)[:120]})
        if bad and len(res["bad"]) < 400:
            res["bad"].append({"sig": bad[0], "msg": "[%s] %s" % (cfg.key(), bad[1]), "case": c, "cfgkey": cfg.key()})
        if out[0] == "exc":
            drv.close()
            drv = mk()
    agent.stop()
    return res


def main():
    a = runner.main_args()
    chk = runner.Check(PID, "fault_enumeration", a.tier, a.seed)
    chk.rule = ("for each v3 configuration holding an auth key ({MD5,SHA-1} x {none,DES,AES} x {sync,async}): every combination of MAC in "
                "{valid, zero, random, empty, 11 octets, 13 octets, one bit flipped in octet 0..11} x auth flag {1,0} x priv flag {1,0} x body "
                "{GetResponse, Report} x payload {encrypted, plaintext} (encrypted only where a privacy key exists) = the full matrix, each "
                "followed by the genuine reply; unique serials identify which datagram was delivered. Oracle: the forged serial may be "
                "delivered only if auth flag set, MAC valid and (privacy configured => encrypted with priv flag); Reports are not judged; a "
                "legitimate reply must be delivered. distinct = (body, forgery class) x configuration.")
    chk.assumptions = ["loopback preserves send order (forged first, genuine second)"]
    jobs = []
    cfgs = []
    for cl in ("sync", "async"):
        for au in ("md5", "sha1"):
            for pr in (None, "des", "aes"):
                cfgs.append(rigp.Cfg("v3", auth=au, priv=pr, client=cl, engine_given=(len(cfgs) % 2 == 0)))
    for ci, cfg in enumerate(cfgs):
        cases = []
        for mac in MACS:
            for aflag in (True, False):
                for pflag in (True, False):
                    for body in ("response", "report"):
                        for enc in ((True, False) if cfg.priv else (False,)):
                            cases.append({"mac": mac, "aflag": aflag, "pflag": pflag, "body": body, "enc": enc})
        for anon in ("reportable", "plain"):
            for body in ("response", "report"):
                cases += [{"mac": "empty", "aflag": False, "pflag": False, "body": body, "enc": False, "anon": anon}] * 2
        for what in ("user", "engine"):
            for n in (255, 256, 257, 512):
                cases.append({"mac": "zero", "aflag": True, "pflag": bool(cfg.priv), "body": "response", "enc": bool(cfg.priv), "padded": (what, n)})
        random.Random(a.seed + ci).shuffle(cases)
        reps = 1 if a.tier == "quick" else 4
        jobs.append({"seed": a.seed * 100 + ci, "cfg": cfg.to_json(), "cases": cases * reps})
    outs = runner.run_workers("checks.c10", "worker", jobs, variant="rel", timeout=3000)
    st = {"cases": 0, "legit_accepted": 0, "forged_rejected": 0, "reports": 0}
    for o in outs:
        res = o["result"]
        cfgkey = rigp.Cfg.from_json(o["job"]["cfg"]).key()
        if res is None:
            if o["rc"] == "timeout":
                chk.inconc("worker timeout at %s" % o["progress"])
            else:
                chk.violation("abort:rigp", "worker died rc=%s at %s: %s" % (o["rc"], o["progress"], o["stderr"][-300:]), {})
            continue
        if "harness_error" in res:
            raise runner.HarnessError(res["harness_error"])
        for x in res["inconclusive"][:2]:
            chk.inconc(x)
        for k in st:
            st[k] += res[k]
        for x in res.get("samples", [])[:1]:
            chk.sample(x, limit=5)
        for c in res["classes"]:
            chk.distinct.add("%s|%s" % ("/".join(cfgkey.split("/")[1:3]), c))
        for b in res["bad"]:
            chk.violation(b["sig"], b["msg"], b)
    chk.seen(st["cases"])
    chk.extra.update(st)
    chk.extra["exhaustive"] = True
    chk.floor("cases", st["cases"], 1500)
    chk.floor("legitimate_replies_delivered", st["legit_accepted"], 12)
    sys.exit(chk.finish())


if __name__ == "__main__":
    try:
        main()
    except (runner.HarnessError, build.BuildError) as e:
        print("HARNESS-ERROR: %s" % e)
        sys.exit(2)
