"""C12 - USM keys are derived exactly as RFC 3414 A.2 prescribes.

(a) get_master_key / get_localized_key against hashlib for passwords of length
1..2^21 and engine ids of length 0..32; (b) sessions configured with password /
master / localized keys: the key actually installed is observed through the MAC
and the decryptability of what they emit; (c) malformed key material, unknown
algorithm codes and empty passwords must raise an Exception, never panic."""
import random
import sys

from checks import c03
from vlib import build, crypto_ref as C, driver, rigp, runner

PID = "C12"
LENS = list(range(1, 65)) + [100, 127, 128, 1000, 4096, 65536, (1 << 20) - 1, 1 << 20, (1 << 20) + 1, (1 << 20) + 17, 1 << 21, 3 * 349525, 1048576 // 3]


def fn_worker(job):
    from gufo.snmp.user import Md5Key, Sha1Key
    from gufo.snmp._fast import get_localized_key, get_master_key
    rng = random.Random(job["seed"])
    res = {"cases": 0, "bad": [], "classes": {}}

    def bad(sig, msg):
        if len(res["bad"]) < 40:
            res["bad"].append({"sig": sig, "msg": msg})
    for n in job["lens"]:
        pw = bytes(rng.randrange(256) for _ in range(min(n, 4096))) * (n // min(n, 4096) + 1)
        pw = pw[:n]
        if rng.random() < 0.3:
            pw = bytes([0]) + pw[1:]
        for alg, cls in ((C.MD5, Md5Key), (C.SHA1, Sha1Key)):
            res["cases"] += 1
            res["classes"]["master:%d:%s" % (alg, "div" if (1 << 20) % n == 0 else "nodiv")] = 1
            try:
                got = cls.get_master_key(pw)
            except BaseException as e:
                bad("master-exc:%s" % type(e).__name__, "get_master_key(%d-octet password) raised %r" % (n, e))
                continue
            want = C.password_to_key(alg, pw)
            if len(res.setdefault("samples", [])) < 2:
                res["samples"].append({"password_len": n, "digest": "md5" if alg == 1 else "sha1", "master_key": got.hex(), "hashlib": want.hex()})
            if got != want:
                bad("master:%s" % ("md5" if alg == 1 else "sha1"), "password of %d octets: master key %s, RFC 3414 A.2 gives %s" % (n, got.hex(), want.hex()))
                continue
            for el in job["engine_lens"]:
                eng = bytes(rng.randrange(256) for _ in range(el))
                res["cases"] += 1
                res["classes"]["localize:%d:%d" % (alg, el)] = 1
                try:
                    g2 = cls.get_localized_key(got, eng)
                except BaseException as e:
                    bad("localize-exc:%s" % type(e).__name__, "get_localized_key(engine id of %d octets) raised %r" % (el, e))
                    continue
                if g2 != C.localize(alg, want, eng):
                    bad("localize:%s" % ("md5" if alg == 1 else "sha1"), "engine id %s: localized key %s, expected %s" % (eng.hex(), g2.hex(), C.localize(alg, want, eng).hex()))
    return res


def malformed_worker(job):
    import gufo.snmp  # noqa: F401
    from gufo.snmp import _fast
    rng = random.Random(job["seed"])
    prog = runner.Progress(job.get("_progress"))
    res = {"cases": 0, "bad": [], "outcomes": {}}

    def run(label, fn):
        prog.mark({"case": label})
        res["cases"] += 1
        try:
            fn()
            oc = "accepted"
        except BaseException as e:
            info = rigp.exc_info(e)
            oc = "%s:%s" % (driver.classify_exc(info), info["cls"])
            if driver.classify_exc(info) == "panic":
                if len(res["bad"]) < 60:
                    import re
                    m = re.search(r"(src/[\w/]+\.rs:\d+)", info["msg"])
                    res["bad"].append({"sig": "panic:%s" % (label.split("(")[0]), "msg": "%s raised %s: %s" % (label, info["cls"], info["msg"][:160])})
        res["outcomes"][oc] = res["outcomes"].get(oc, 0) + 1
    addr = "127.0.0.1:9"
    eng = bytes(range(12))
    for code in job["codes"]:
        for kl in job["key_lens"]:
            key = bytes(rng.randrange(256) for _ in range(kl))
            run("SnmpV3ClientSocket(auth_alg=%d, auth_key=%d octets)" % (code, kl),
                lambda: _fast.SnmpV3ClientSocket(addr, eng, "u", code, key, 0, b"", 0, 0, 0, 1000000))
            run("SnmpV3ClientSocket(auth=sha1 password, priv_alg=%d, priv_key=%d octets)" % (code, kl),
                lambda: _fast.SnmpV3ClientSocket(addr, eng, "u", 2, b"authpassword", code, key, 0, 0, 0, 1000000))
            if code < 4 or code in (64, 65, 66, 128, 129, 130):
                def sk():
                    s = _fast.SnmpV3ClientSocket(addr, b"", "", 0, b"", 0, b"", 0, 0, 0, 1000000)
                    s.set_keys("u", code, key, 0, b"")
                run("set_keys(auth_alg=%d, auth_key=%d octets)" % (code, kl), sk)

                def sk2():
                    s = _fast.SnmpV3ClientSocket(addr, eng, "", 0, b"", 0, b"", 0, 0, 0, 1000000)
                    s.set_keys("u", 1, b"password1", code, key)
                run("set_keys(priv_alg=%d, priv_key=%d octets)" % (code, kl), sk2)
    for alg in range(0, 256, 1):
        run("get_master_key(alg=%d, b'')" % alg, lambda: _fast.get_master_key(alg, b""))
        run("get_master_key(alg=%d, b'x')" % alg, lambda: _fast.get_master_key(alg, b"x"))
        for kl in (0, 1, 15, 16, 17, 19, 20, 21, 64):
            run("get_localized_key(alg=%d, key=%d octets)" % (alg, kl), lambda: _fast.get_localized_key(alg, bytes(kl), eng))
    return res


def main():
    a = runner.main_args()
    chk = runner.Check(PID, "exploration", a.tier, a.seed)
    chk.rule = ("(a) passwords of length 1..64, 100, 127, 128, 1000, 4096, 65536, 2^20-1, 2^20, 2^20+1, 2^20+17, 2^21 and random lengths (dividing "
                "and not dividing 2^20), random octets incl. NUL; engine ids of length 0..32; MD5 and SHA-1; oracle hashlib A.2.1/A.2.2. "
                "(b) sessions with password/master/localized auth and priv keys: installed key observed via MAC + reference decryption of the "
                "traffic. (c) _fast.SnmpV3ClientSocket / set_keys / get_master_key / get_localized_key with key lengths 0..64 for every key "
                "type, algorithm codes 0..255, empty password: outcome must be acceptance or an Exception subclass, never PanicException or a "
                "dead worker. distinct = (function, digest, divisibility / engine-id length) classes and outcome classes.")
    chk.assumptions = ["hashlib md5/sha1", "which malformed inputs are *accepted* is not judged, only that refusal is an ordinary exception"]
    C.self_test(cross=False)
    rng = random.Random(a.seed)
    lens = list(LENS) + [rng.randrange(65, 5000) for _ in range(20 if a.tier == "quick" else 400)] + \
        [rng.randrange(1, 1 << 21) for _ in range(6 if a.tier == "quick" else 100)]
    rng.shuffle(lens)
    engs = list(range(0, 33)) if a.tier != "quick" else [0, 1, 5, 11, 12, 17, 31, 32]
    jobs = [{"seed": a.seed * 11 + i, "lens": lens[i::16], "engine_lens": engs} for i in range(16)]
    st = {}
    for variant in (("rel", "dbg") if a.tier == "quick" else ("rel", "dbg", "asan")):
        outs = runner.run_workers("checks.c12", "fn_worker", jobs if variant == "rel" else jobs[:4], variant=variant, timeout=3000)
        n = 0
        for o in outs:
            res = o["result"]
            if res is None:
                chk.violation("abort:rigp", "worker died rc=%s: %s" % (o["rc"], o["stderr"][-300:]), {"variant": variant})
                continue
            if "harness_error" in res:
                raise runner.HarnessError(res["harness_error"])
            n += res["cases"]
            for x in res.get("samples", [])[:1]:
                chk.sample(x)
            for c in res["classes"]:
                chk.distinct.add(c)
            for b in res["bad"]:
                chk.violation(b["sig"], "[%s] %s" % (variant, b["msg"]), b)
        st["fn_" + variant] = n
        chk.seen(n)
        # malformed
        mj = [{"seed": a.seed + i, "codes": list(range(i, 256, 8)), "key_lens": list(range(0, 65)) if a.tier != "quick" else [0, 1, 7, 8, 15, 16, 17, 19, 20, 21, 32, 64]}
              for i in range(8)]
        outs = runner.run_workers("checks.c12", "malformed_worker", mj, variant=variant, timeout=3000)
        n = 0
        for o in outs:
            res = o["result"]
            if res is None:
                chk.violation("abort:malformed", "worker died rc=%s at %s: %s" % (o["rc"], o["progress"], o["stderr"][-400:]), {"variant": variant, "progress": o["progress"]})
                continue
            if "harness_error" in res:
                raise runner.HarnessError(res["harness_error"])
            n += res["cases"]
            for c in res["outcomes"]:
                chk.distinct.add("malformed:" + c)
            for b in res["bad"]:
                chk.violation(b["sig"], "[%s] %s" % (variant, b["msg"]), b)
        st["malformed_" + variant] = n
        chk.seen(n)
    # (b) session level: key types through MAC / decryption
    knobs = {"sessions": 6, "versions": ["v3"], "auths": ["md5", "sha1"], "privs": [None, "des", "aes"],
             "ops": ["get", "get_many", "getnext", "refresh"], "beh_weights": [100, 0, 0, 0], "key_types": ["password", "password", "master", "localized"]}
    sj = [{"seed": a.seed * 77 + i, "steps": 120 if a.tier == "quick" else 2000, "aspects": ["mac", "priv", "auth_flag", "priv_flag", "panic", "outcome", "deaf", "create"],
           "knobs": dict(knobs, shared_pw=("sharedpass%d" % i) if i % 2 else None, same_octets=0.35 if i >= 4 else 0.0,
                          **({"share_key_objects": True, "key_types": ["password", "password", "password", "master"]} if i % 4 == 1 else {}))} for i in range(8)]
    outs = runner.run_workers("vlib.scenario", "worker", sj, variant="rel", timeout=3000)
    s = c03.collect(chk, outs, "rel", PID)
    st["session_datagrams"] = s["requests"]
    chk.seen(s["requests"])
    # (b') the whole key-type matrix, systematically: digest x cipher x auth key type x priv key type x engine given/discovered
    # x client x relation between the two secrets (different; the same pass phrase; the very same octets handed over for both
    # keys although their key types differ, e.g. a privacy *password* equal to the auth *master key*)
    mx = []
    for auth in ("md5", "sha1"):
        for priv in ("des", "aes"):
            for akt in ("password", "master", "localized"):
                for pkt in ("password", "master", "localized"):
                    for eg in (False, True):
                        for cl in ("sync", "async"):
                            for rel in ("distinct", "same_pw", "auth", "raw"):
                                if rel == "auth" and pkt != "password":
                                    continue
                                pw = bytes(rng.randrange(33, 127) for _ in range(rng.choice([8, 9, 16, 20])))
                                c = rigp.Cfg("v3", user="mx", auth=auth, priv=priv, auth_kt=akt, priv_kt=pkt, auth_pw=pw,
                                             priv_pw=pw if rel == "same_pw" else pw + b"#2", engine_given=eg, client=cl)
                                if rel == "raw":
                                    # one and the same octet string (of the digest's size) handed over as both secrets,
                                    # each under its own key type - all nine (auth type, privacy type) pairs
                                    x = bytes(rng.randrange(33, 127) for _ in range(16 if auth == "md5" else 20))
                                    c.auth_raw = c.priv_raw = x
                                d = c.to_json()
                                if rel == "auth":
                                    d["_priv_octets"] = "auth"
                                mx.append(d)
    rng.shuffle(mx)
    mj = [{"seed": a.seed * 91 + i, "cfgs": mx[i::16], "round_robin": True, "steps": len(mx[i::16]) * (4 if a.tier == "quick" else 12),
           "aspects": ["mac", "priv", "auth_flag", "priv_flag", "panic", "outcome", "deaf", "create"],
           "knobs": dict(knobs, ops=["get", "get_many", "refresh"], open_drop=0.0)} for i in range(16)]
    outs = runner.run_workers("vlib.scenario", "worker", mj, variant="rel", timeout=3000)
    s = c03.collect(chk, outs, "rel", PID)
    st["matrix_configurations"] = len(mx)
    st["matrix_datagrams"] = s["requests"]
    chk.seen(s["requests"])
    chk.floor("matrix_datagrams", s["requests"], len(mx) * 3)
    chk.extra.update(st)
    chk.floor("derivations", st.get("fn_rel", 0), 500)
    sys.exit(chk.finish())


if __name__ == "__main__":
    try:
        main()
    except (runner.HarnessError, build.BuildError) as e:
        print("HARNESS-ERROR: %s" % e)
        sys.exit(2)
