"""C11 - Encrypted payloads are exactly the scoped PDU under RFC 3414 / RFC 3826.

Rig P: DES/AES sessions x digests x key types x boots/time, histories mixing
sends, timeouts, receives of agent-encrypted replies (random salts, arbitrary
padding), oversized requests, key re-installation; the agent decrypts every
msgData with the reference ciphers and strict-parses the plaintext; the client's
results on agent-encrypted replies are compared with the MIB.
Rig R: the same kind of history directly on PrivKey (rel, ASan, Miri)."""
import json
import random
import sys

from checks import c03
from vlib import ber_ref as B
from vlib import build, crypto_ref as C, model as M, runner

PID = "C11"
ASPECTS = ["priv", "priv_flag", "salt", "strict", "panic", "result", "oids", "pdu_tag", "outcome", "count", "oversize", "deaf", "create"]


def gen_history(rng, n):
    """-> (lines, checks). checks[i] describes how to judge output line i."""
    lines, checks = [], []
    alg = rng.choice([1, 2])
    kul = bytes(rng.randrange(256) for _ in range(rng.choice([16, 20])))
    lines.append("priv_new\tk\t%d\t%s" % (alg, kul.hex()))
    checks.append(("new",))
    for _ in range(n):
        r = rng.random()
        boots, tm = rng.choice([0, 1, 255, 65536, 2 ** 31 - 1, rng.randrange(2 ** 31)]), rng.choice([0, 7, 2 ** 31 - 1, rng.randrange(2 ** 31)])
        if r < 0.55:
            kind = rng.choice(["get", "next", "bulk"])
            noids = rng.choice([0, 1, 1, 2, 5, 20]) if rng.random() < 0.93 else rng.choice([400, 700])
            oids = [M.gen_oid(rng, 2, rng.choice([4, 9, 14])) for _ in range(noids)]
            rid, nr, mr = rng.randrange(2 ** 31), 0, (rng.choice([1, 20, 255, 2 ** 31 - 1]) if kind == "bulk" else 0)
            ctx = bytes(rng.randrange(256) for _ in range(rng.choice([0, 5, 12, 32])))
            lines.append("priv_enc\tk\t%d\t%d\t%s\t%s\t%d\t%d\t%d\t%s" % (
                boots, tm, ctx.hex() or "-", kind, rid, nr, mr, ",".join(B.oid_content(o).hex() for o in oids) or "-"))
            tag = {"get": B.PDU_GET, "next": B.PDU_GETNEXT, "bulk": B.PDU_GETBULK}[kind]
            pdu = B.enc_pdu(tag, rid, nr, mr, [B.enc_varbind(o, B.enc_null()) for o in oids])
            checks.append(("enc", alg, kul, boots, tm, B.enc_scoped(ctx, b"", pdu)))
        else:
            # a reply encrypted by the agent: response with random values
            names = [M.gen_oid(rng) for _ in range(rng.choice([0, 1, 1, 3, 12]))]
            vbs = [B.enc_varbind(o, M.gen_value(rng, ["Int", "OctetString", "Counter64", "Oid", "IpAddress"])["tlv"]) for o in names]
            rid = rng.randrange(2 ** 31)
            ctx = bytes(rng.randrange(256) for _ in range(rng.choice([0, 8, 17])))
            scoped = B.enc_scoped(ctx, b"", B.enc_pdu(B.PDU_RESPONSE, rid, 0, 0, vbs))
            salt = bytes(rng.randrange(256) for _ in range(8))
            pt = scoped + bytes(rng.randrange(256) for _ in range(rng.choice([0, 0, 1, 7, 9, 16])))
            bad_len = False
            if rng.random() < 0.12 and len(scoped) > 20:
                # the element declares more octets than the ciphertext carries (1..15 missing at the end):
                # must be refused, never completed from whatever the key's private buffer still holds
                d = rng.randrange(1, 16)
                pt = scoped[:-d]
                if alg == 1:
                    pt = pt[:len(pt) - len(pt) % 8]
                    ct = C.usm_des_encrypt(kul, salt, pt)
                else:
                    ct = C.usm_aes_encrypt(kul, boots, tm, salt, pt)
                lines.append("priv_dec\tk\t%d\t%d\t%s\t%s" % (boots, tm, salt.hex(), ct.hex()))
                checks.append(("dec_overrun", d))
                continue
            if alg == 1:
                if rng.random() < 0.15:
                    pt = pt + b"\x00" * ((-len(pt)) % 8) + b"\x01\x02\x03"  # not a block multiple: must be refused
                    bad_len = True
                    ct = pt  # content irrelevant
                else:
                    pt += bytes(rng.randrange(256) for _ in range((-len(pt)) % 8))
                    ct = C.usm_des_encrypt(kul, salt, pt)
            else:
                ct = C.usm_aes_encrypt(kul, boots, tm, salt, pt)
            lines.append("priv_dec\tk\t%d\t%d\t%s\t%s" % (boots, tm, salt.hex(), ct.hex()))
            checks.append(("dec", bad_len, ctx, rid, len(vbs), [B.oid_content(o).hex() for o in names]))
    return lines, checks


def judge_history(chk, variant, lines, checks, out, hist_id):
    n = 0
    for i, (ln, ck, o) in enumerate(zip(lines, checks, out)):
        n += 1
        if o[0] == "panic":
            chk.violation("panic:%s" % o[1].split(": ")[0].replace("/repo/", ""), "PrivKey history step %d panicked: %s" % (i, o[1][:200]),
                          {"variant": variant, "lines": lines[:i + 1]})
            continue
        if ck[0] == "new":
            continue
        if ck[0] == "enc":
            _, alg, kul, boots, tm, scoped = ck
            if o[0] == "err":
                if o[1] == "OutOfBuffer" and len(scoped) > 4080 - 32:
                    chk.distinct.add("R:enc:oversize")
                    continue
                chk.violation("enc:err:%s" % ("des" if alg == 1 else "aes"), "encrypt step %d of history failed with %s for a %d-octet scoped PDU" % (i, o[1], len(scoped)),
                              {"variant": variant, "lines": lines[:i + 1]})
                continue
            salt, ct = bytes.fromhex(o[1]), bytes.fromhex(o[2])
            block = 8 if alg == 1 else 16
            okc = len(salt) == 8
            pt = b""
            if okc:
                if alg == 1:
                    okc = len(ct) % 8 == 0
                    pt = C.usm_des_decrypt(kul, salt, ct) if okc else b""
                else:
                    pt = C.usm_aes_decrypt(kul, boots, tm, salt, ct)
            good = okc and pt[:len(scoped)] == scoped and 0 <= len(pt) - len(scoped) < block
            chk.distinct.add("R:enc:%s:%d" % ("des" if alg == 1 else "aes", len(scoped) % block))
            if not good:
                chk.violation("enc:%s" % ("des" if alg == 1 else "aes"),
                              "history step %d [%s]: msgData decrypts to %d octets; expected the %d-octet scoped PDU + < %d padding; prefix equal: %s" % (
                                  i, variant, len(pt), len(scoped), block, pt[:len(scoped)] == scoped),
                              {"variant": variant, "lines": lines[:i + 1], "plaintext": pt.hex()[:400], "expected": scoped.hex()[:400]})
        elif ck[0] == "dec_overrun":
            chk.distinct.add("R:dec:overrun")
            if o[0] == "ok":
                chk.violation("dec:overrun", "history step %d [%s]: a scoped PDU whose last %d octets were never sent was accepted: %s" % (i, variant, ck[1], "\t".join(o)[:160]),
                              {"variant": variant, "lines": lines[:i + 1]})
        else:
            _, bad_len, ctx, rid, nvb, oids = ck
            if bad_len:
                if o[0] != "err":
                    chk.violation("dec:badlen", "DES ciphertext of a non-block-multiple length was accepted: %s" % "\t".join(o)[:100], {"lines": lines[:i + 1]})
                chk.distinct.add("R:dec:badlen")
                continue
            good = False
            if o[0] == "ok":
                d = json.loads(o[1])
                good = d["ctx_engine_id"] == ctx.hex() and d["pdu"]["kind"] == "response" and d["pdu"]["request_id"] == rid and \
                    [v[0] for v in d["pdu"]["vars"]] == oids
            chk.distinct.add("R:dec:%d" % nvb)
            if not good:
                chk.violation("dec", "history step %d [%s]: agent-encrypted reply decrypted to %s" % (i, variant, "\t".join(o)[:200]),
                              {"variant": variant, "lines": lines[:i + 1]})
    return n


def rig_r(chk, tier, seed):
    plans = [("rel", 64, 120), ("dbg", 16, 60), ("asan", 16, 60), ("miri", 8, 10)] if tier == "quick" else \
            [("rel", 640, 200), ("dbg", 160, 200), ("asan", 160, 200), ("miri", 32, 40)]
    st = {}
    for variant, nh, hl in plans:
        if variant != "miri":
            build.build(variant)
        else:
            runner.ldrive("miri", [], timeout=900)
        hs = []
        for h in range(nh):
            rng = random.Random(seed * 7919 + h)
            hs.append(gen_history(rng, hl))
        outs = runner.parallel(lambda x: runner.ldrive(variant, x[0], timeout=3000), hs)
        steps = 0
        for h, ((lines, checks), (p, out)) in enumerate(zip(hs, outs)):
            se = p.stderr.decode(errors="replace")
            if variant == "miri" and ("Undefined Behavior" in se or "data race" in se.lower()):
                import re
                fr = re.search(r"(/repo/src/[\w/]+\.rs:\d+)", se)
                chk.violation("miri:%s" % (fr.group(1) if fr else "?"), "Miri report in PrivKey history: %s" % se[-600:], {"lines": lines})
                continue
            if len(out) != len(lines):
                reps = runner.asan_reports(se)
                chk.violation("rigr:died:%s" % (reps[0][1] if reps else variant), "ldrive %s died in history %d: %s" % (variant, h, se[-300:]), {"lines": lines})
                continue
            steps += judge_history(chk, variant, lines, checks, out, h)
            if h == 0 and variant == "rel":
                chk.sample({"privkey_history_lines": [l[:120] for l in lines[:4]], "library_output": ["\t".join(o)[:120] for o in out[:4]]})
        st[variant] = {"histories": nh, "steps": steps}
        chk.seen(steps)
    chk.extra["rig_r_histories"] = st


def rig_p(chk, tier, seed):
    variants = ["rel"] if tier == "quick" else ["rel", "dbg", "asan"]
    stats = {}
    for variant in variants:
        steps = 350 if tier == "quick" else (12000 if variant == "rel" else 2500)
        knobs = {"sessions": 4, "versions": ["v3"], "auths": ["md5", "sha1"], "privs": ["des", "aes"], "reply_pad": True,
                 "beh_weights": [70, 6, 12, 12], "timeout": 0.5, "ident_wild": 0.06,
                 "ops": ["get", "get_many", "getnext", "getbulk", "fetch", "refresh", "oversize", "get", "get_many"]}
        jobs = [{"seed": seed * 99989 + i, "steps": steps, "aspects": ASPECTS,
                 "knobs": dict(knobs, **({"shared_pw": "samepass%d" % i, "sessions": 6, "key_types": ["password", "password", "password", "master"],
                                          "same_octets": 0.0} if i % 2 else {"same_octets": 0.5 if i % 4 == 2 else 0.0}))} for i in range(16)]
        outs = runner.run_workers("vlib.scenario", "worker", jobs, variant=variant, timeout=3000)
        stats[variant] = c03.collect(chk, outs, variant, PID)
        chk.seen(stats[variant]["requests"])
    chk.extra["rig_p"] = stats
    chk.floor("encrypted_datagrams_judged", sum(s["requests"] for s in stats.values()), 4000)


def main():
    a = runner.main_args()
    chk = runner.Check(PID, "exploration", a.tier, a.seed)
    chk.rule = ("sessions with DES and AES x {MD5,SHA-1} x {password,master,localized} x boots/time over 0..2^31-1; histories of API calls "
                "mixing sends, timeouts (unanswered requests), receives of agent-encrypted replies (random salts, 0..31 arbitrary trailing "
                "octets), oversized requests; every msgData is decrypted by the reference DES-CBC/AES-CFB with key = reference-localized Kul "
                "and IV from the message's own salt/boots/time, must strict-parse as the expected scoped PDU followed by < 1 block; client "
                "results from agent-encrypted replies compared with the MIB. Rig R: random encrypt/decrypt histories on PrivKey under "
                "rel/dbg/ASan/Miri. distinct = configurations, header geometries, (cipher, plaintext length mod block) classes.")
    chk.assumptions = ["pure-Python DES/AES references (self-tested on FIPS/NIST vectors and against openssl)"]
    C.self_test(cross=(a.tier != "quick"))
    rig_r(chk, a.tier, a.seed)
    rig_p(chk, a.tier, a.seed)
    if a.tier == "thorough":
        mc = runner.run_memcheck(a.seed)
        chk.extra["memcheck"] = {k: v for k, v in mc.items() if k != "reports"}
        chk.extra["memcheck"]["reports_in_fast_so"] = len(mc["reports"])
        if mc.get("timeout") or not mc.get("completed"):
            chk.inconc("memcheck workload did not complete")
        for kind, text in mc["reports"]:
            chk.violation("memcheck:%s" % kind.split(" ")[0].lower(), "valgrind memcheck: %s (frame in _fast.so)" % kind, {"report": text})
        chk.seen(mc["exchanges"])
    sys.exit(chk.finish())


if __name__ == "__main__":
    try:
        main()
    except (runner.HarnessError, build.BuildError) as e:
        print("HARNESS-ERROR: %s" % e)
        sys.exit(2)
