"""C02 - Response values reach the caller exactly as the agent encoded them.

Rig P: model-generated GetResponses (independent BER encoder) read through
get / get_many / getnext / getbulk, sync and async, v1/v2c/v3(plain/auth/DES/AES).
Rig R: decode-only at scale through SnmpValue::from_ber (rel + dbg + asan)."""
import json
import math
import random
import struct
import sys
import time

from vlib import build, driver, model as M, rigp, runner
from vlib import ber_ref as B

PID = "C02"


def gen_case(rng, op):
    """-> dict(op, args, vbs=[(oid, valuedict)], expect)"""
    if op == "get":
        v = M.gen_value(rng)
        oid = M.gen_oid(rng)
        return {"op": "get", "oid": oid, "vbs": [(oid, v)]}
    if op == "get_many":
        n = rng.choice([0, 1, 2, 3, 5, 8, 13, 40, rng.randrange(0, 41), rng.choice([255, 256, 257])])
        oids, seen = [], set()
        if n >= 255:
            # more varbinds than a u8 counts, kept small enough for one datagram: short names, small INTEGERs
            while len(oids) < n:
                o = (1, 3, rng.randrange(0, 128), rng.randrange(0, 128))
                if o not in seen:
                    seen.add(o)
                    oids.append(o)
            vals = [rng.randrange(-128, 128) for _ in oids]
            return {"op": "get_many", "oids": oids, "vbs": [(o, {"kind": "Int", "tlv": B.enc_int(v), "py": v, "cls": "Int:1:many"}) for o, v in zip(oids, vals)]}
        while len(oids) < n:
            o = M.gen_oid(rng)
            if o not in seen:
                seen.add(o)
                oids.append(o)
        # the reply's names are the agent's: now and then one under joint-iso-itu-t(2) with a second arc >= 40
        names = [o if rng.random() < 0.9 else M.gen_oid_wide(rng) for o in oids]
        if len(set(names)) < len(names):
            names = oids
        return {"op": "get_many", "oids": oids, "vbs": [(o, M.gen_value(rng)) for o in names]}
    # walks: names strictly increasing below a base
    base = M.gen_oid(rng, 2, 8)
    n = 1 if op == "getnext" else rng.choice([1, 2, 3, 7, 20, rng.randrange(1, 30)])
    names, cur = [], base
    for _ in range(n):
        # next name: extend or bump the last arc -> strictly increasing in OID order
        if cur == base or rng.random() < 0.5:
            cur = cur + (M.gen_arc(rng),)
        else:
            k = rng.randrange(len(base), len(cur))
            if cur[k] >= 4294967295:
                cur = cur + (M.gen_arc(rng),)
            else:
                cur = cur[:k] + (rng.randrange(cur[k] + 1, min(4294967295, cur[k] + 1 + (1 << rng.choice([1, 7, 14, 28]))) + 1),)
        names.append(cur)
    kinds = [k for k in M.KINDS if k != "Null"]
    return {"op": op, "base": base, "vbs": [(o, M.gen_value(rng, kinds)) for o in names], "cap": rng.choice([1, 2, 3, 7, 50, 50])}


def worker(job):
    import gufo.snmp  # noqa: F401
    prog = runner.Progress(job.get("_progress"))
    cfg = rigp.Cfg.from_json(job["cfg"])
    rng = random.Random(job["seed"])
    res = {"cases": 0, "values": 0, "classes": {}, "bad": [], "harness": []}
    state = {}

    def handler(agent, req):
        def f(req):
            if not req.ok:
                agent.errors.append("agent could not parse request: %s" % req.err)
                return None
            c = state.get("case")
            if c is None:
                return agent.reply(req, [])
            page = c["vbs"]
            if c["op"] in ("getnext", "getbulk"):
                # a size-limited agent: each response carries the next 1 (GetNext) or at most `cap` (GetBulk, RFC 3416
                # 4.2.3 allows fewer than max-repetitions) entries after the requested name
                cur = (req.oids() or [(1, 3)])[0]
                rest = [(o, v) for o, v in c["vbs"] if o > cur]
                n = 1 if req.pdu["tag"] == B.PDU_GETNEXT else max(1, min(c.get("cap", 50), req.pdu["b"]))
                page = rest[:n]
                if not page:
                    if req.version == 0:
                        return agent.reply(req, [B.enc_varbind(cur, B.enc_null())], error_status=2, error_index=1)
                    return agent.reply(req, [B.enc_varbind(cur, M.EXC_TLV["EndOfMibView"])])
            elif state.get("served"):
                return agent.reply(req, [])
            state["served"] = True
            vbs = [B.enc_varbind(o, v["tlv"], form=state["rng"].choice([None, None, 2])) for o, v in page]
            return agent.reply(req, vbs, vb_form=state["rng"].choice([None, 2, 3]), pdu_form=state["rng"].choice([None, 2]))
        return agent.discovery_or(req, f)

    state["rng"] = random.Random(job["seed"] + 1)
    agent = rigp.Agent(handler, users=[cfg.user_keys()], rng=random.Random(job["seed"])).start()
    drv = driver.Driver(cfg, agent, timeout=1.0).create()
    r = drv.call("open")
    if r[0] != "ok":
        res["harness"].append("open failed %r" % (r,))
    ops = job["ops"]
    for i in range(job["n"]):
        op = ops[i % len(ops)]
        if cfg.version == "v1" and op == "getbulk":
            op = "getnext"
        c = gen_case(rng, op)
        state["case"], state["served"] = c, False
        prog.mark({"cfg": cfg.key(), "i": i, "op": op})
        if op == "get":
            out = drv.call("get", B.oid_text(c["oid"]))
            v = c["vbs"][0][1]
            exp = ("ok", v["py"])
        elif op == "get_many":
            out = drv.call("get_many", [B.oid_text(o) for o in c["oids"]])
            exp = ("ok", {B.oid_text(o): v["py"] for o, v in c["vbs"] if v["kind"] != "Null"})
        else:
            base_txt = M.spell(state["rng"], c["base"], 0.3)   # the caller's spelling of the base must not show in the keys
            args = (base_txt,) if op == "getnext" else (base_txt, state["rng"].choice([1, 5, 20, 50]))
            if i % 7 == 3 and len(c["vbs"]) >= 2:
                # the same walk started and left after its first row (the rest of the page unread), then walked for real
                drv.call(op, *args, limit=1)
            out = drv.call(op, *args, limit=200)
            exp = ("ok", [(B.oid_text(o), v["py"]) for o, v in c["vbs"]])
        res["cases"] += 1
        ok = False
        if out[0] == "ok":
            got = out[1]
            if op == "get":
                ok = M.same_value(exp[1], got)
            elif op == "get_many":
                ok = isinstance(got, dict) and set(got) == set(exp[1]) and all(M.same_value(exp[1][k], got[k]) for k in got)
            else:
                ok = isinstance(got, list) and len(got) == len(exp[1]) and all(
                    isinstance(g, tuple) and g[0] == e[0] and M.same_value(e[1], g[1]) for g, e in zip(got, exp[1]))
        for _, v in c["vbs"]:
            res["values"] += 1
            res["classes"][v["cls"]] = res["classes"].get(v["cls"], 0) + 1
        if not ok:
            # find the first offending value class for the signature
            culprit = None
            if out[0] == "ok":
                if op == "get":
                    culprit = c["vbs"][0][1]
                elif op == "get_many" and isinstance(out[1], dict):
                    for o, v in c["vbs"]:
                        k = B.oid_text(o)
                        if v["kind"] != "Null" and (k not in out[1] or not M.same_value(v["py"], out[1][k])):
                            culprit = v
                            break
                elif isinstance(out[1], list):
                    for (o, v), g in zip(c["vbs"], out[1] + [None] * len(c["vbs"])):
                        if not (isinstance(g, tuple) and g[0] == B.oid_text(o) and M.same_value(v["py"], g[1])):
                            culprit = v
                            break
            elif len(c["vbs"]) == 1:
                culprit = c["vbs"][0][1]
            if len(res["bad"]) < 300:
                res["bad"].append({
                    "cfgkey": cfg.key(), "op": op, "culprit_cls": culprit["cls"] if culprit else None,
                    "culprit_tlv": culprit["tlv"].hex() if culprit else None,
                    "culprit_expected": M.jv(culprit["py"]) if culprit else None,
                    "vbs": [(B.oid_text(o), v["tlv"].hex(), M.jv(v["py"])) for o, v in c["vbs"]][:12],
                    "got": repr(out)[:600]})
            if out[0] == "exc":
                drv.close()
                drv = driver.Driver(cfg, agent, timeout=1.0).create()
                drv.call("open")
    agent.stop()
    res["agent_errors"] = agent.errors[:3]
    return res


def sig_class(cls):
    """Collapse a value class to the known-finding granularity."""
    import re
    cls = re.sub(r":L\d$", "", cls or "?")
    if cls.startswith("Real:bin"):
        return "Real:bin"
    if cls.startswith("Real:"):
        return cls
    return cls.split(":")[0] + (":" + cls.split(":")[1] if cls.startswith("Int:") else "")


# ------------------------------------------------------------------ Rig R
def expected_json(v):
    k, py = v["kind"], v["py"]
    if k in ("OctetString", "Opaque", "ObjectDescriptor"):
        return {"t": k, "v": py.hex()}
    if k == "Oid":
        return {"t": "Oid", "v": B.oid_content(B.parse_oid_text(py)).hex()}
    if k == "Real":
        return {"t": "Real", "v": struct.unpack(">Q", struct.pack(">d", py))[0]}
    if k == "Null":
        return {"t": "Null"}
    return {"t": k, "v": py}


def rig_r(chk, tier, seed):
    plans = [("rel", 16, 12000), ("dbg", 16, 4000), ("asan", 8, 2000)] if tier == "quick" else \
            [("rel", 16, 200000), ("dbg", 16, 40000), ("asan", 16, 20000)]
    st = {}
    for variant, nsh, n in plans:
        build.build(variant)

        def one(sh):
            rng = random.Random(seed * 1000 + sh)
            vals = [M.gen_value(rng) for _ in range(n)]
            sfx = [bytes(rng.randrange(256) for _ in range(rng.choice([0, 0, 1, 3]))) for _ in range(n)]
            p, out = runner.ldrive(variant, ["value\t" + (v["tlv"] + s).hex() for v, s in zip(vals, sfx)])
            return vals, sfx, p, out
        rs = runner.parallel(one, range(nsh))
        cnt = bad = 0
        for vals, sfx, p, out in rs:
            if len(out) != len(vals):
                reps = runner.asan_reports(p.stderr.decode(errors="replace"))
                chk.violation("rigr:died:%s" % (reps[0][1] if reps else variant), "ldrive (%s) died after %d/%d lines: %s" % (
                    variant, len(out), len(vals), p.stderr.decode(errors="replace")[-400:]), {"variant": variant})
                continue
            for v, s, o in zip(vals, sfx, out):
                cnt += 1
                chk.distinct.add("R:" + v["cls"])
                exp = expected_json(v)
                good = False
                if o[0] == "ok":
                    got = json.loads(o[2])
                    if v["kind"] == "Real" and isinstance(v["py"], float) and math.isnan(v["py"]):
                        good = got.get("t") == "Real" and math.isnan(struct.unpack(">d", struct.pack(">Q", got["v"]))[0])
                    else:
                        good = got == exp
                    good = good and int(o[1]) == len(s)
                if not good:
                    bad += 1
                    chk.violation("value:%s" % sig_class(v["cls"]),
                                  "SnmpValue::from_ber(%s) [%s build] gave %s, model says %s (class %s)" % (
                                      (v["tlv"] + s).hex()[:80], variant, "\t".join(o)[:160], exp, v["cls"]),
                                  {"rig": "R", "variant": variant, "tlv": v["tlv"].hex(), "suffix": s.hex(), "expected": exp, "got": o})
        st[variant] = {"values": cnt, "mismatches": bad}
        chk.seen(cnt)
    chk.extra["rig_r"] = st


def rig_p(chk, tier, seed):
    variants = ["rel"] if tier == "quick" else ["rel", "dbg", "asan"]
    per = 110 if tier == "quick" else 2500
    st = {}
    for variant in variants:
        jobs = []
        n = per if variant == "rel" else per // 5
        for ci, cfg in enumerate(rigp.base_cfgs(clients=("sync", "async"))):
            for oi, ops in enumerate((["get", "getnext"], ["get_many", "getbulk"])):
                jobs.append({"cfg": cfg.to_json(), "ops": ops, "n": n, "seed": seed * 7919 + ci * 10 + oi})
        outs = runner.run_workers("checks.c02", "worker", jobs, variant=variant, timeout=1800)
        cases = values = bad = 0
        for o in outs:
            res = o["result"]
            cfgkey = rigp.Cfg.from_json(o["job"]["cfg"]).key()
            if res is None:
                if o["rc"] == "timeout":
                    chk.inconc("worker timeout at %s" % o["progress"])
                else:
                    chk.violation("abort:rigp", "worker died rc=%s at %s: %s" % (o["rc"], o["progress"], o["stderr"][-400:]),
                                  {"variant": variant, "progress": o["progress"]})
                continue
            if "harness_error" in res:
                raise runner.HarnessError(res["harness_error"])
            if res["agent_errors"] or res["harness"]:
                chk.inconc("harness trouble %s: %s %s" % (cfgkey, res["agent_errors"][:1], res["harness"][:1]))
            cases += res["cases"]
            values += res["values"]
            for c in res["classes"]:
                chk.distinct.add("P:" + c)
            for b in res["bad"]:
                bad += 1
                chk.violation("value:%s" % sig_class(b["culprit_cls"]),
                              "%s %s [%s]: value class %s tlv %s expected %s; call gave %s" % (
                                  b["cfgkey"], b["op"], variant, b["culprit_cls"], (b["culprit_tlv"] or "")[:60], b["culprit_expected"], b["got"][:200]),
                              {"rig": "P", "variant": variant, **b})
        st[variant] = {"responses": cases, "values": values, "mismatches": bad}
        chk.seen(values)
    chk.extra["rig_p"] = st
    chk.floor("rig_p_responses", sum(v["responses"] for v in st.values()), 2000)


def main():
    a = runner.main_args()
    chk = runner.Check(PID, "exploration", a.tier, a.seed)
    chk.rule = ("model draws names (first arc 0..2, arcs at base-128 boundaries up to 2^32-1) and values of every supported type at boundary "
                "and random points (INTEGER edges of every width, unsigned with/without leading zero, strings of lengths around 127/128/255/256, "
                "REAL special/NR1-3/binary base 2,8,16 F 0..3 exponent formats 0..3), short or long-form lengths; the independent encoder "
                "builds the response; delivered Python objects compared with == and type identity (floats: exact, NaN, sign of zero). "
                "distinct = value classes (type x width x length form) observed per rig.")
    chk.assumptions = ["REALs generated are exactly representable as f64, so exact equality is the right comparison",
                       "exotic ISO 6093 spellings (leading blanks, comma) are not generated"]
    rng = random.Random(a.seed)
    for _ in range(4):
        v = M.gen_value(rng)
        chk.sample({"class": v["cls"], "tlv": v["tlv"].hex()[:80], "python": M.jv(v["py"])})
    rig_r(chk, a.tier, a.seed)
    rig_p(chk, a.tier, a.seed)
    sys.exit(chk.finish())


if __name__ == "__main__":
    try:
        main()
    except (runner.HarnessError, build.BuildError) as e:
        print("HARNESS-ERROR: %s" % e)
        sys.exit(2)
