"""C17 - Oversized requests fail cleanly; buffer code stays in bounds.

Rig P: request-size sweep, octet by octet, across every nesting-level length
boundary and the 4080-octet buffer limit, for v1/v2c/v3 (noAuth, auth, DES,
AES); long communities and user names.  Rig R: random Buffer operation
sequences against a shadow model (native, ASan, Miri)."""
import json
import random
import sys
import time

from vlib import ber_ref as B
from vlib import build, driver, model as M, rigp, runner, scenario

PID = "C17"
LIMIT = 4080


def ll(n):
    return 1 if n < 128 else 2 if n < 256 else 3 if n < 65536 else 4


def tl(n):
    return 1 + ll(n) + n


def vb_size(c):
    return tl(tl(c) + 2)


def msg_size(cfg, st, contents, rid_w, mid_w):
    """Size of a Get request with OID content lengths `contents` (arithmetic twin of scenario.ref_request)."""
    vbl = tl(sum(vb_size(c) for c in contents))
    pdu = tl(2 + rid_w + 3 + 3 + vbl)
    if cfg.version != "v3":
        return tl(3 + tl(len(cfg.community.encode())) + pdu)
    eng = len(st["engine_id"])
    scoped = tl(tl(eng) + 2 + pdu)
    data = tl(scoped) if st["priv"] else scoped
    usm = tl(tl(eng) + 2 + len(B.int_content(st["boots"])) + 2 + len(B.int_content(st["time"])) + tl(len(st["user"])) +
             tl(12 if st["auth"] else 0) + tl(8 if st["priv"] else 0))
    hdr = tl(2 + mid_w + 4 + 3 + 3)
    return tl(3 + hdr + tl(usm) + data)


def make_oids(rng, contents):
    """OIDs (arc tuples) whose BER content has exactly the requested lengths (>= 1)."""
    out = []
    for c in contents:
        arcs = [1, 3]
        left = c - 1
        while left > 0:
            k = min(left, rng.choice([1, 1, 2, 3, 4, 5]))
            lo = 0 if k == 1 else 1 << (7 * (k - 1))
            hi = (1 << (7 * k)) - 1 if k < 5 else 0xFFFFFFFF
            arcs.append(rng.randrange(lo, hi + 1))
            left -= k
        out.append(tuple(arcs))
    return out


def plan_contents(cfg, st, target, rng):
    """Find OID content lengths so that the reference size with 4-octet ids equals target; None if unreachable."""
    base = msg_size(cfg, st, [], 4, 4)
    if target < base:
        return None
    # many OIDs of one content length + one tunable OID
    for c0 in (rng.choice([9, 14, 20, 33, 60, 130, 150, 260]), 14, 9, 3):
        per = vb_size(c0)
        k = max(0, (target - base) // per + 1)
        for kk in range(k, max(-1, k - 4), -1):
            for c in range(1, 140):
                cs = [c0] * kk + [c]
                if msg_size(cfg, st, cs, 4, 4) == target:
                    rng.shuffle(cs)
                    return cs
            if msg_size(cfg, st, [c0] * kk, 4, 4) == target and kk > 0:
                return [c0] * kk
    return None


def worker(job):
    import gufo.snmp  # noqa: F401
    prog = runner.Progress(job.get("_progress"))
    rng = random.Random(job["seed"])
    cfg = rigp.Cfg.from_json(job["cfg"])
    res = {"requests": 0, "sent": 0, "refused": 0, "band": 0, "unreachable": 0, "bad": [], "sizes_seen": [], "after_failure_ok": 0,
           "inconclusive": []}
    st = {"engine_id": b"", "boots": 0, "time": 0, "user": b"", "auth": False, "priv": False}
    box = {"reqs": []}

    def handler(agent, req):
        box["reqs"].append(req)
        if not req.ok:
            return None

        def f(req):
            return agent.reply(req, [])  # empty response: get_many -> {}
        return agent.discovery_or(req, f)

    agent = rigp.Agent(handler, users=[cfg.user_keys()], rng=random.Random(job["seed"]), boots=rng.choice([1, 200, 70000]), etime=rng.choice([5, 300, 2 ** 31 - 1])).start()
    drv = driver.Driver(cfg, agent, timeout=2.0).create()
    r = drv.call("open")
    if r[0] != "ok":
        res["bad"].append({"sig": "open", "msg": "open failed %r" % (r,), "cfgkey": cfg.key()})
        agent.stop()
        return res
    if cfg.version == "v3":
        st.update(engine_id=agent.engine_id, boots=agent.boots, time=agent.time, user=cfg.user.encode(), auth=bool(cfg.auth), priv=bool(cfg.priv))
    block = {"des": 8, "aes": 16}.get(cfg.priv, 0)

    def bad(sig, msg, extra=None):
        if len(res["bad"]) < 60:
            d = {"sig": sig, "msg": msg, "cfgkey": cfg.key(), "cfg": cfg.to_json()}
            d.update(extra or {})
            res["bad"].append(d)

    for target in job["targets"]:
        prog.mark({"cfg": cfg.key(), "target": target})
        cs = plan_contents(cfg, st, target, rng)
        if cs is None:
            res["unreachable"] += 1
            continue
        oids = make_oids(rng, cs)
        box["reqs"] = []
        out = drv.call("get_many", [B.oid_text(o) for o in oids])
        res["requests"] += 1
        smin, smax = msg_size(cfg, st, cs, 1, 1), msg_size(cfg, st, cs, 4, 4)
        # privacy: ciphertext may carry < one block of padding, and the cipher's private buffer also holds padding
        must_send = smax + (block if block else 0) <= LIMIT - (32 if block else 0)
        must_fail = smin > LIMIT
        reqs = box["reqs"]
        if out[0] == "exc" and out[1]["cls"] == "TimeoutError":
            res["inconclusive"].append("size %d: timed out (load)" % target)
            continue
        sent = len(reqs) > 0
        failed_clean = out[0] == "exc" and "EncodeError" in out[1]["cls"]
        if out[0] == "exc" and not failed_clean:
            bad("exception", "get_many of %d OIDs (reference size %d..%d) raised %s: %s" % (len(oids), smin, smax, out[1]["cls"], out[1]["msg"][:100]),
                {"target": target})
        if must_fail:
            res["refused"] += 1
            if sent:
                bad("oversize_sent", "request of reference size >= %d (> %d) put %d datagram(s) of %d octets on the wire" % (
                    smin, LIMIT, len(reqs), len(reqs[0].raw)), {"target": target, "datagram": reqs[0].raw.hex()[:200]})
            if not failed_clean:
                bad("oversize_not_refused", "request of reference size >= %d (> %d): outcome %s" % (smin, LIMIT, repr(out)[:160]), {"target": target})
        elif must_send:
            res["sent"] += 1
            if failed_clean or not sent:
                bad("fitting_refused", "request of reference size <= %d (fits %d) was not sent: %s" % (smax, LIMIT, repr(out)[:160]), {"target": target})
        else:
            res["band"] += 1
            if failed_clean and sent:
                bad("both", "request both refused and sent (size %d..%d)" % (smin, smax), {"target": target})
        if sent:
            if len(reqs) != 1:
                bad("count", "%d datagrams for one get_many" % len(reqs), {"target": target})
            rq = reqs[0]
            exp = {"tag": B.PDU_GET, "a": 0, "b": 0, "oids": oids, "report": False}
            for aspect, msg in scenario.judge_request(rq, cfg, exp, st):
                bad("wire:" + aspect, "size %d: %s" % (len(rq.raw), msg), {"target": target, "datagram": rq.raw.hex()[:300]})
            if rq.ok:
                rid_w = len(B.int_content(rq.request_id))
                mid_w = len(B.int_content(rq.m["msg_id"])) if cfg.version == "v3" else 4
                want = msg_size(cfg, st, cs, rid_w, mid_w)
                if block:
                    # plaintext scoped PDU length is exact; ciphertext adds < block
                    okk = 0 <= len(rq.raw) - want < block + 2
                else:
                    okk = len(rq.raw) == want
                if not okk:
                    bad("size", "datagram has %d octets, the reference encoding has %d" % (len(rq.raw), want), {"target": target})
                if len(rq.raw) > LIMIT:
                    bad("oversize_sent", "datagram of %d octets exceeds the %d-octet buffer" % (len(rq.raw), LIMIT), {"target": target})
                res["sizes_seen"].append(len(rq.raw))
        if len(res.setdefault("samples", [])) < 3 and (target in (4080, 4081, 4079) or res["requests"] % 300 == 1):
            res["samples"].append({"cfg": cfg.key(), "target_reference_size": target, "oids": len(oids), "outcome": repr(out)[:80],
                                   "datagram_octets": len(reqs[0].raw) if reqs else None})
        if failed_clean:
            # the call after a failure must be normal
            box["reqs"] = []
            o2 = drv.call("get_many", ["1.3.6.1.2.1.1.1.0"])
            if o2 == ("ok", {}) and len(box["reqs"]) == 1 and not scenario.judge_request(
                    box["reqs"][0], cfg, {"tag": B.PDU_GET, "a": 0, "b": 0, "oids": [(1, 3, 6, 1, 2, 1, 1, 1, 0)], "report": False}, st):
                res["after_failure_ok"] += 1
            elif not (o2[0] == "exc" and o2[1]["cls"] == "TimeoutError"):
                bad("after_failure", "the request after a refused one misbehaved: %s ; %s" % (
                    repr(o2)[:120], [m for _, m in scenario.judge_request(box["reqs"][0], cfg, {"tag": B.PDU_GET, "a": 0, "b": 0, "oids": [(1, 3, 6, 1, 2, 1, 1, 1, 0)], "report": False}, st)][:2] if box["reqs"] else "no datagram"),
                    {"target": target})
    agent.stop()
    if agent.errors:
        res["inconclusive"].append("agent exception: " + agent.errors[0][-300:])
    res["sizes_seen"] = sorted(set(res["sizes_seen"]))
    return res


def cred_worker(job):
    """Long community / user names: one session per length, one single-OID get."""
    import gufo.snmp  # noqa: F401
    rng = random.Random(job["seed"])
    res = {"requests": 0, "sent": 0, "refused": 0, "bad": [], "inconclusive": []}
    box = {"reqs": []}

    def handler(agent, req):
        box["reqs"].append(req)
        if not req.ok:
            return None
        return agent.reply(req, [])
    for kind, n in job["cases"]:
        name = "".join(rng.choice("abcdefghijklmnopqrstuvwxyz0123456789") for _ in range(n))
        if kind == "bigreply":
            # a well-formed reply longer than the receive buffer (n octets in one datagram): it cannot be complete in the
            # buffer, so the call must fail (documented exception) - never return a value pieced together from beyond it
            cfg = rng.choice([rigp.Cfg("v2c", client=cl) for cl in ("sync", "async")] + [rigp.Cfg("v3", engine_given=True, client="sync")])
            st_big = {"n": n}

            def bh(agent, req, st_big=st_big):
                if not req.ok:
                    return None

                def f(q):
                    base = len(agent.reply(q, [B.enc_varbind((1, 3, 6, 1, 2, 1, 1, 5, 0), B.enc_octets(b""))]))
                    fill = st_big["n"] - base
                    for _ in range(4):   # length octets grow with the filler: adjust until exact
                        dg = agent.reply(q, [B.enc_varbind((1, 3, 6, 1, 2, 1, 1, 5, 0), B.enc_octets(b"Z" * max(0, fill)))])
                        if len(dg) == st_big["n"]:
                            break
                        fill -= len(dg) - st_big["n"]
                    st_big["sent_len"] = len(dg)
                    return dg
                return agent.discovery_or(req, f)
            agent = rigp.Agent(bh, users=[cfg.user_keys()]).start()
            drv = driver.Driver(cfg, agent, timeout=2.0).create()
            drv.call("open")
            out = drv.call("get", "1.3.6.1.2.1.1.5.0")
            res["requests"] += 1
            res["sent"] += 1
            if st_big.get("sent_len") != n:
                res["inconclusive"].append("big reply of %s octets instead of %d" % (st_big.get("sent_len"), n))
            elif out[0] == "ok" and n > LIMIT:
                res["bad"].append({"sig": "oversize-reply-accepted", "msg": "[%s] a reply datagram of %d octets (receive buffer %d) was accepted: get() returned %d octets: %s" % (
                    cfg.key(), n, LIMIT, len(out[1]) if isinstance(out[1], (bytes, str)) else -1, repr(out[1])[-60:]), "cfgkey": cfg.key()})
            elif out[0] == "exc" and driver.classify_exc(out[1]) == "panic":
                res["bad"].append({"sig": "oversize-reply-panic", "msg": "[%s] reply of %d octets: %s" % (cfg.key(), n, out[1]["cls"]), "cfgkey": cfg.key()})
            elif n <= LIMIT and out[0] != "ok":
                res["bad"].append({"sig": "fitting-reply-refused", "msg": "[%s] a reply datagram of %d octets (fits the receive buffer) was not delivered: %s" % (cfg.key(), n, repr(out)[:120]), "cfgkey": cfg.key()})
            agent.stop()
            drv.close()
            continue
        if kind.startswith("op:"):
            # every request type through every security level: nesting lengths are judged after decryption too
            # (a PDU header that is only wrong when something was pushed into the buffer before it shows nowhere else)
            op = kind[3:]
            au, pr = rng.choice([(None, None), ("md5", None), ("sha1", "des"), ("md5", "aes"), ("sha1", "aes"), ("md5", "des")])
            cfg = rigp.Cfg("v3", auth=au, priv=pr, engine_given=True, client=rng.choice(["sync", "async"]))
            agent = rigp.Agent(handler, users=[cfg.user_keys()]).start()
            kw = {"allow_bulk": False} if op == "fetch1" and n % 2 else {}
            drv = driver.Driver(cfg, agent, timeout=2.0, **kw).create()
            drv.call("open")
            box["reqs"] = []
            oid = (1, 3, 6, 1) + tuple(rng.choice([1, 127, 128, 16384, M.gen_arc(rng)]) for _ in range(n))
            out = drv.call(op, [B.oid_text(oid)]) if op == "get_many" else drv.call(op, B.oid_text(oid))
            res["requests"] += 1
            res["sent"] += 1
            st = {"engine_id": agent.engine_id, "boots": agent.boots if au else 0, "time": agent.time if au else 0, "user": cfg.user.encode(), "auth": bool(au), "priv": bool(pr)}
            bulk = op == "getbulk1" or (op == "fetch1" and not kw)
            exp = {"tag": B.PDU_GET if op in ("get", "get_many") else (B.PDU_GETBULK if bulk else B.PDU_GETNEXT), "a": 0, "b": 20 if bulk else 0, "oids": [oid], "report": False}
            if not box["reqs"]:
                res["bad"].append({"sig": "ops:not-sent", "msg": "[%s %s] nothing was sent: %s" % (cfg.key(), op, repr(out)[:120]), "cfgkey": cfg.key()})
            else:
                for aspect, msg in scenario.judge_request(box["reqs"][0], cfg, exp, st):
                    if len(res["bad"]) < 40:
                        res["bad"].append({"sig": "wire:" + aspect, "msg": "[%s, OID of %d arcs] %s" % (op, len(oid), msg), "cfgkey": cfg.key()})
            agent.stop()
            drv.close()
            continue
        if kind == "community":
            cfg = rigp.Cfg(rng.choice(["v1", "v2c"]), community=name, client=rng.choice(["sync", "async"]))
        else:
            cfg = rigp.Cfg("v3", user=name, engine_given=True, client=rng.choice(["sync", "async"]))
        agent = rigp.Agent(handler, users=[cfg.user_keys()]).start()
        st = {"engine_id": agent.engine_id if cfg.version == "v3" else b"", "boots": 0, "time": 0, "user": name.encode(), "auth": False, "priv": False}
        drv = driver.Driver(cfg, agent, timeout=2.0).create()
        drv.call("open")
        box["reqs"] = []
        oid = (1, 3, 6, 1, 2, 1, 1, 5, 0)
        out = drv.call("get_many", [B.oid_text(oid)])
        res["requests"] += 1
        cs = [len(B.oid_content(oid))]
        smin, smax = msg_size(cfg, st, cs, 1, 1), msg_size(cfg, st, cs, 4, 4)
        sent = len(box["reqs"]) > 0
        failed_clean = out[0] == "exc" and "EncodeError" in out[1]["cls"]

        def bad(sig, msg):
            if len(res["bad"]) < 40:
                res["bad"].append({"sig": sig, "msg": "[%s %s len %d] %s" % (cfg.version, kind, n, msg), "cfgkey": cfg.key()})
        if out[0] == "exc" and out[1]["cls"] == "TimeoutError":
            res["inconclusive"].append("timed out (load)")
        elif smin > LIMIT:
            res["refused"] += 1
            if sent or not failed_clean:
                bad("oversize", "reference size >= %d: sent=%s outcome %s" % (smin, sent, repr(out)[:120]))
        elif smax <= LIMIT:
            res["sent"] += 1
            if not sent or failed_clean:
                bad("fitting_refused", "reference size <= %d not sent: %s" % (smax, repr(out)[:120]))
        if sent:
            rq = box["reqs"][0]
            for aspect, msg in scenario.judge_request(rq, cfg, {"tag": B.PDU_GET, "a": 0, "b": 0, "oids": [oid], "report": False}, st):
                bad("wire:" + aspect, msg)
        agent.stop()
        drv.close()
    return res


def targets_for(tier, rng, shard, nsh):
    ts = set()
    if tier == "quick":
        ts.update(range(40, 420))                      # 127/128, 255/256 at every nesting level
        ts.update(range(LIMIT - 60, LIMIT + 60))       # the buffer limit
        ts.update(rng.randrange(420, LIMIT - 60) for _ in range(300))
        ts.update(rng.randrange(LIMIT + 60, 4400) for _ in range(20))
    else:
        ts.update(range(40, 4400))
    ts = sorted(ts)
    return ts[shard::nsh]


def rig_r(chk, tier, seed):
    st = {}
    plans = [("rel", 4000, 400), ("dbg", 1500, 400), ("asan", 1500, 400)] if tier == "quick" else [("rel", 200000, 400), ("dbg", 40000, 400), ("asan", 40000, 400)]
    for variant, nseq, maxops in plans:
        build.build(variant)
        outs = runner.parallel(lambda i: runner.run_bin(variant, "buf_ops", [seed * 100 + i, nseq // 8, maxops], timeout=3000), range(8))
        ops = 0
        for p in outs:
            se = p.stderr.decode(errors="replace")
            for kind, frame in runner.asan_reports(se):
                chk.violation("asan:%s:%s" % (kind, frame), "ASan %s at %s in buf_ops" % (kind, frame), {"stderr": se[-2000:]})
            try:
                d = json.loads(p.stdout.decode().strip().split("\n")[-1])
            except (ValueError, IndexError):
                if not runner.asan_reports(se):
                    chk.violation("abort:buf_ops", "buf_ops %s died rc=%s: %s" % (variant, p.returncode, se[-300:]), {})
                continue
            ops += d["ops"]
            for b in d["bad"]:
                chk.violation("buf:%s" % b.split(": ")[1][:40], "Buffer vs shadow [%s]: %s" % (variant, b), {"variant": variant})
        st[variant] = {"ops": ops}
        chk.seen(ops)
        chk.distinct.add("R:buf:" + variant)
    # Miri: small
    n = 8
    runner.run_miri("buf_ops", [0, 1, 1], timeout=900)
    outs = runner.parallel(lambda i: runner.run_miri("buf_ops", [seed * 100 + i, 3 if tier == "quick" else 20, 40 if tier == "quick" else 120], timeout=3000, seed=i), range(n))
    ops = 0
    for p in outs:
        se = p.stderr.decode(errors="replace")
        if "Undefined Behavior" in se or "data race" in se.lower():
            import re
            fr = re.search(r"(/repo/src/[\w/]+\.rs:\d+)", se)
            chk.violation("miri:%s" % (fr.group(1) if fr else "?"), "Miri report in buf_ops: %s" % se[-700:], {})
            continue
        try:
            d = json.loads(p.stdout.decode().strip().split("\n")[-1])
        except (ValueError, IndexError):
            chk.inconc("miri buf_ops: no summary rc=%s %s" % (p.returncode, se[-200:]))
            continue
        ops += d["ops"]
        for b in d["bad"]:
            chk.violation("buf:%s" % b.split(": ")[1][:40], "Buffer vs shadow [miri]: %s" % b, {"variant": "miri"})
    st["miri"] = {"ops": ops}
    chk.seen(ops)
    chk.distinct.add("R:buf:miri")
    chk.extra["rig_r_buf_ops"] = st
    chk.floor("miri_buffer_ops", ops, 100)


def main():
    a = runner.main_args()
    chk = runner.Check(PID, "exploration", a.tier, a.seed)
    chk.rule = ("get_many OID lists constructed so that the reference-encoded request has every total length in 40..420 and 4020..4140 (quick; "
                "thorough: every length 40..4400) - which sweeps each nested length field (varbind, varbind list, PDU, scoped PDU, USM, msgData, "
                "message) across 127/128 and 255/256 - for v1, v2c, v3 noAuth/auth/DES/AES, sync+async; communities and user names of "
                "0..4100 octets. Oracle: reference size > 4080 for every id width -> SnmpEncodeError and no datagram; <= 4080 (minus 48 for "
                "privacy) -> sent, strict-decodable, equal to the request, exact length; in between either, but never both; the request after "
                "a refusal is normal. Rig R: random push/push_u8/push_tag_len/push_tagged/skip+fill/reset/bookmark/recv sequences on one "
                "Buffer against a Vec shadow, natively, under ASan and Miri. distinct = datagram sizes observed and rigs.")
    chk.assumptions = ["size arithmetic msg_size() is the arithmetic twin of the reference encoder (cross-checked at run start)"]
    # cross-check the size arithmetic against the reference encoder
    rng = random.Random(a.seed)
    for _ in range(200):
        cfg = rng.choice(rigp.base_cfgs(("sync",)))
        st = {"engine_id": bytes(rng.randrange(256) for _ in range(rng.choice([0, 5, 12, 32]))), "boots": rng.choice([0, 200, 70000, 2 ** 31 - 1]),
              "time": rng.choice([0, 128, 2 ** 24]), "user": cfg.user.encode(), "auth": bool(cfg.auth), "priv": bool(cfg.priv)}
        cs = [rng.randrange(1, 120) for _ in range(rng.choice([0, 1, 3, 40, 150]))]
        oids = make_oids(rng, cs)
        if [len(B.oid_content(o)) for o in oids] != cs:
            raise runner.HarnessError("make_oids produced wrong content lengths")
        for w in (1, 2, 3, 4):
            if scenario.ref_request(cfg, st, B.PDU_GET, 0, 0, oids, w, w, False) != msg_size(cfg, st, cs, w, w):
                raise runner.HarnessError("msg_size disagrees with the reference encoder")
    rig_r(chk, a.tier, a.seed)
    variants = ["rel"] if a.tier == "quick" else ["rel", "dbg", "asan"]
    stats = {}
    for variant in variants:
        jobs = []
        cfgs = rigp.base_cfgs(clients=("sync", "async"))
        nsh = 2 if a.tier == "quick" else 3
        for ci, cfg in enumerate(cfgs):
            if a.tier == "quick" and cfg.client == "async" and cfg.version in ("v1",):
                continue
            for sh in range(nsh):
                if variant != "rel" and sh:
                    continue
                jobs.append({"seed": a.seed * 7 + ci * 10 + sh, "cfg": cfg.to_json(),
                             "targets": targets_for(a.tier if variant == "rel" else "quick", random.Random(a.seed + ci), sh, nsh if variant == "rel" else 1)})
        outs = runner.run_workers("checks.c17", "worker", jobs, variant=variant, timeout=3000)
        cj = [{"seed": a.seed + i, "cases": [(k, n) for k in ("community", "user") for n in
                                              ([0, 1, 127, 128, 255, 256, 1000] + list(range(3960 + i, 4110, 8)))] +
               [("bigreply", n) for n in (4000 + i, 4079, 4080, 4081, 4082 + i, 4096, 4200 + 100 * i, 8000 + i, 20000)] +
               [("op:" + op, n) for op in ("get", "get_many", "getnext1", "getbulk1", "fetch1") for n in (1 + i, 9 + i, 40 + i, 100 + i, 120 + i // 2)]} for i in range(8)]
        outs2 = runner.run_workers("checks.c17", "cred_worker", cj, variant=variant, timeout=3000)
        s = {"requests": 0, "sent": 0, "refused": 0, "band": 0, "unreachable": 0, "after_failure_ok": 0, "cred_requests": 0}
        for o in outs + outs2:
            res = o["result"]
            if res is None:
                if o["rc"] == "timeout":
                    chk.inconc("worker timeout at %s" % o["progress"])
                else:
                    chk.violation("abort:rigp", "worker died rc=%s at %s: %s" % (o["rc"], o["progress"], o["stderr"][-400:]), {"variant": variant})
                continue
            if "harness_error" in res:
                raise runner.HarnessError(res["harness_error"])
            for x in res["inconclusive"][:3]:
                chk.inconc(x)
            for k in ("requests", "sent", "refused", "band", "unreachable", "after_failure_ok"):
                s[k] += res.get(k, 0)
            for z in res.get("sizes_seen", []):
                chk.distinct.add("size:%d" % z)
            for x in res.get("samples", [])[:1]:
                chk.sample(x, limit=6)
            for b in res["bad"]:
                chk.violation("%s:%s" % (b["sig"], c_sig(b["cfgkey"])), "[%s %s] %s" % (variant, b["cfgkey"], b["msg"]), {"variant": variant, **b})
        stats[variant] = s
        chk.seen(s["requests"])
    # valgrind memcheck on the shipped artefact: every octet handed to send(2) is defined, nothing is read past live data
    mc = runner.run_memcheck(a.seed)
    chk.extra["memcheck"] = {k: v for k, v in mc.items() if k != "reports"}
    chk.extra["memcheck"]["reports_in_fast_so"] = len(mc["reports"])
    if mc.get("timeout") or not mc.get("completed"):
        chk.inconc("memcheck workload did not complete (%s)" % ("timeout" if mc.get("timeout") else "see stderr"))
    for kind, text in mc["reports"]:
        chk.violation("memcheck:%s" % kind.split(" ")[0].lower() + ":" + ("sendto" if "send" in kind else "other"),
                      "valgrind memcheck: %s (frame in _fast.so) : %s" % (kind, text[-500:].replace("\n", " | ")), {"report": text})
    chk.seen(mc["exchanges"])
    chk.distinct.add("memcheck")
    chk.extra["rig_p"] = stats
    chk.floor("size_sweep_requests", sum(s["requests"] for s in stats.values()), 3000)
    chk.floor("refused_requests", sum(s["refused"] for s in stats.values()), 100)
    sys.exit(chk.finish())


def c_sig(cfgkey):
    p = cfgkey.split("/")
    return "/".join(p[:3]) if p[0] == "v3" else p[0]


if __name__ == "__main__":
    try:
        main()
    except (runner.HarnessError, build.BuildError) as e:
        print("HARNESS-ERROR: %s" % e)
        sys.exit(2)
