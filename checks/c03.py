"""C03 - Requests on the wire are exactly what the caller asked for.

Rig P: random API programs over several live sessions of different versions /
credentials in one process (pooled buffers reused in every state), plus threads.
Every datagram at the agent is strict-decoded and compared with the model.
Rig R: pool acquire/fill/drop under Miri's data-race detector; message round trip."""
import json
import random
import sys

from vlib import build, rigp, runner, scenario

PID = "C03"
ASPECTS = ["strict", "version", "community", "user", "engine", "boots_time", "auth_flag", "priv_flag", "flags", "pdu_tag",
           "bulk_params", "request_id", "msg_id", "oids", "count", "oversize", "bad_oid", "panic", "outcome", "mac", "priv", "salt", "result", "deaf", "create"]


def collect(chk, outs, variant, label):
    st = {"calls": 0, "requests": 0, "bad": 0, "ops": {}}
    for o in outs:
        res = o["result"]
        if res is None:
            if o["rc"] == "timeout":
                chk.inconc("%s worker timeout at %s" % (label, o["progress"]))
            else:
                chk.violation("abort:rigp:%s" % variant, "worker died rc=%s at %s: %s" % (o["rc"], o["progress"], o["stderr"][-500:]),
                              {"variant": variant, "job": o["job"]})
            continue
        if "harness_error" in res:
            raise runner.HarnessError(res["harness_error"])
        if res["harness"]:
            chk.inconc("agent-side exception: %s" % res["harness"][0][-300:])
        for x in res.get("inconclusive", [])[:5]:
            chk.inconc(x)
        st["calls"] += res["calls"]
        st["requests"] += res["requests"]
        for k, v in res["ops"].items():
            st["ops"][k] = st["ops"].get(k, 0) + v
        for x in res.get("samples", [])[:2]:
            chk.sample(x, limit=6)
        for c in res["cfgs"]:
            chk.distinct.add("cfg:" + c)
        for g in res["geom"]:
            chk.distinct.add("geom:%r" % (g,))
        for b in res["bad"]:
            st["bad"] += 1
            chk.violation("%s:%s" % (b["aspect"], sig_cfg(b["cfgkey"])),
                          "[%s %s] %s %s%s (agent behaviour %s): %s" % (variant, b["cfgkey"], b["aspect"], b["op"], b["args"][:80], b["behaviour"], b["msg"]),
                          {"rig": "P", "variant": variant, "job_seed": o["job"]["seed"], "knobs": o["job"].get("knobs"), **b})
    return st


def sig_cfg(cfgkey):
    p = cfgkey.split("/")
    return "/".join(p[:3]) if p[0] == "v3" else p[0]


def rig_p(chk, tier, seed):
    variants = ["rel", "dbg"] if tier == "quick" else ["rel", "dbg", "asan"]
    stats = {}
    for variant in variants:
        steps = (600 if variant == "rel" else 150) if tier == "quick" else (30000 if variant == "rel" else 4000)
        jobs = [{"seed": seed * 100003 + i, "steps": steps, "aspects": ASPECTS, "knobs": {"sessions": 5}} for i in range(16)]
        if variant == "rel":
            jobs += [{"seed": seed * 100003 + 500 + i, "steps": steps, "aspects": ASPECTS,
                      "knobs": {"sessions": 8, "threads": 8, "clients": ["sync"], "timeout": 3.0, "beh_weights": [80, 0, 8, 12]}} for i in range(4 if tier == "quick" else 16)]
        outs = runner.run_workers("vlib.scenario", "worker", jobs, variant=variant, timeout=3000)
        stats[variant] = collect(chk, outs, variant, "C03")
        chk.seen(stats[variant]["requests"])
    chk.extra["rig_p"] = stats
    chk.floor("datagrams_judged", sum(s["requests"] for s in stats.values()), 8000)


def rig_r(chk, tier, seed):
    # pool contention under Miri (data-race + aliasing + uninit monitor)
    n = 2 if tier == "quick" else 8
    st = {"runs": 0, "ops": 0}

    def one(i):
        try:
            return i, runner.run_miri("pool_threads", [seed * 10 + i, 4, 12 if tier == "quick" else 40], timeout=1500, seed=seed * 10 + i)
        except Exception as e:
            return i, e
    runner.run_miri("pool_threads", [0, 1, 1], timeout=900)
    for i, p in runner.parallel(one, range(n)):
        if isinstance(p, Exception):
            chk.inconc("miri pool_threads %d: %r" % (i, p))
            continue
        se = p.stderr.decode(errors="replace")
        if "Undefined Behavior" in se or "Data race" in se or "data race" in se:
            import re
            fr = re.search(r"(/repo/src/[\w/]+\.rs:\d+)", se)
            chk.violation("miri:pool:%s" % (fr.group(1) if fr else "?"), "Miri report in pool_threads: %s" % se[-600:], {"seed": seed * 10 + i})
            continue
        out = p.stdout.decode().strip().split("\n")[-1]
        try:
            d = json.loads(out)
        except ValueError:
            chk.inconc("miri pool_threads %d: rc=%s %s" % (i, p.returncode, se[-200:]))
            continue
        st["runs"] += 1
        st["ops"] += d["ops"]
        if d["bad"]:
            chk.violation("pool:dirty", "pool handed out a buffer that was not reset: %s" % d["bad"], d)
    # the same natively at scale (asan)
    p = runner.run_bin("asan", "pool_threads", [seed, 8, 20000 if tier == "quick" else 400000], timeout=1500)
    reps = runner.asan_reports(p.stderr.decode(errors="replace"))
    for kind, frame in reps:
        chk.violation("asan:%s:%s" % (kind, frame), "ASan %s at %s in pool_threads" % (kind, frame), {})
    try:
        d = json.loads(p.stdout.decode().strip().split("\n")[-1])
        st["asan_ops"] = d["ops"]
        if d["bad"]:
            chk.violation("pool:dirty", "pool handed out a buffer that was not reset: %s" % d["bad"], d)
    except (ValueError, IndexError):
        if not reps:
            chk.inconc("asan pool_threads gave no summary rc=%s" % p.returncode)
    chk.seen(st["ops"] + st.get("asan_ops", 0))
    chk.distinct.add("R:pool:miri")
    chk.extra["rig_r_pool"] = st


def main():
    a = runner.main_args()
    chk = runner.Check(PID, "exploration", a.tier, a.seed)
    chk.rule = ("random programs of get/get_many(0..60 oids)/getnext/getbulk(m in {1,2,127,128,255,256,65535,2^31-1,random})/fetch/refresh/"
                "context entry/invalid-OID/oversized calls over 5-8 live sessions per process (v1, v2c, v3 x digests x ciphers x key types, "
                "engine ids 5..32 octets, user names 0..200 octets, boots/time of every INTEGER width, sync+async, and 8 threads), agent "
                "replying / dropping / sending large or stray datagrams; every datagram at the agent strict-decoded (definite minimal lengths, "
                "minimal INTEGERs, nothing trailing) and compared field by field with the model; exactly-one-datagram-per-request counted. "
                "distinct = configurations and v3 header geometries (engine-id len, user len, boots/time widths, auth offset) observed.")
    chk.assumptions = ["expected boots/time are those of the last agent message the model classifies as accepted",
                       "pool interference is exercised by interleaving sessions and threads, not exhausted"]
    rig_p(chk, a.tier, a.seed)
    rig_r(chk, a.tier, a.seed)
    sys.exit(chk.finish())


if __name__ == "__main__":
    try:
        main()
    except (runner.HarnessError, build.BuildError) as e:
        print("HARNESS-ERROR: %s" % e)
        sys.exit(2)
