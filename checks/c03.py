"""C03 - Requests on the wire are exactly what the caller asked for.

Rig P: random API programs over several live sessions of different versions /
credentials in one process (pooled buffers reused in every state), plus threads.
Every datagram at the agent is strict-decoded and compared with the model.
Rig R: pool acquire/fill/drop under Miri's data-race detector; message round trip."""
import json
import random
import sys

from vlib import build, rigp, runner, scenario

PID = "C03"
ASPECTS = ["strict", "version", "community", "user", "engine", "boots_time", "auth_flag", "priv_flag", "flags", "pdu_tag",
           "bulk_params", "request_id", "msg_id", "oids", "count", "oversize", "bad_oid", "panic", "outcome", "mac", "priv", "salt", "result", "deaf", "create"]


def collect(chk, outs, variant, label):
    st = {"calls": 0, "requests": 0, "bad": 0, "ops": {}}
    for o in outs:
        res = o["result"]
        if res is None:
            if o["rc"] == "timeout":
                chk.inconc("%s worker timeout at %s" % (label, o["progress"]))
            else:
                chk.violation("abort:rigp:%s" % variant, "worker died rc=%s at %s: %s" % (o["rc"], o["progress"], o["stderr"][-500:]),
                              {"variant": variant, "job": o["job"]})
            continue
        if "harness_error" in res:
            raise runner.HarnessError(res["harness_error"])
        if res["harness"]:
            chk.inconc("agent-side exception: %s" % res["harness"][0][-300:])
        for x in res.get("inconclusive", [])[:5]:
            chk.inconc(x)
        st["calls"] += res["calls"]
        st["requests"] += res["requests"]
        for k, v in res["ops"].items():
            st["ops"][k] = st["ops"].get(k, 0) + v
        for x in res.get("samples", [])[:2]:
            chk.sample(x, limit=6)
        for c in res["cfgs"]:
            chk.distinct.add("cfg:" + c)
        for g in res["geom"]:
            chk.distinct.add("geom:%r" % (g,))
        for b in res["bad"]:
            st["bad"] += 1
            chk.violation("%s:%s" % (b["aspect"], sig_cfg(b["cfgkey"])),
                          "[%s %s] %s %s%s (agent behaviour %s): %s" % (variant, b["cfgkey"], b["aspect"], b["op"], b["args"][:80], b["behaviour"], b["msg"]),
                          {"rig": "P", "variant": variant, "job_seed": o["job"]["seed"], "knobs": o["job"].get("knobs"), **b})
    return st


def sig_cfg(cfgkey):
    p = cfgkey.split("/")
    return "/".join(p[:3]) if p[0] == "v3" else p[0]


def rig_p(chk, tier, seed):
    variants = ["rel", "dbg"] if tier == "quick" else ["rel", "dbg", "asan"]
    stats = {}
    for variant in variants:
        steps = (600 if variant == "rel" else 150) if tier == "quick" else (30000 if variant == "rel" else 4000)
        jobs = [{"seed": seed * 100003 + i, "steps": steps, "aspects": ASPECTS, "knobs": {"sessions": 5}} for i in range(16)]
        if variant == "rel":
            jobs += [{"seed": seed * 100003 + 500 + i, "steps": steps, "aspects": ASPECTS,
                      "knobs": {"sessions": 8, "threads": 8, "clients": ["sync"], "timeout": 3.0, "beh_weights": [80, 0, 8, 12]}} for i in range(4 if tier == "quick" else 16)]
        outs = runner.run_workers("vlib.scenario", "worker", jobs, variant=variant, timeout=3000)
        stats[variant] = collect(chk, outs, variant, "C03")
        chk.seen(stats[variant]["requests"])
    gj = [{"seed": seed * 733 + i, "rounds": 60 if tier == "quick" else 3000, "sessions": 4 + i % 5} for i in range(8)]
    outs = runner.run_workers("checks.c03", "gather_worker", gj, variant="rel", timeout=3000)
    stats["gather"] = collect(chk, outs, "rel", "C03")
    chk.seen(stats["gather"]["requests"])
    chk.extra["rig_p"] = stats
    chk.floor("datagrams_judged", sum(s["requests"] for s in stats.values()), 8000)


def gather_worker(job):
    """Concurrency inside one event loop: N async sessions (mixed versions / security levels), each against its own
    agent, issue their requests *together* (asyncio.gather), so encodes, sends, receives and decodes of different
    sessions interleave at every await.  Per agent: exactly the expected datagram (judge_request); per call: the value
    that agent sent for that very request."""
    import asyncio
    import gufo.snmp  # noqa: F401
    from vlib import ber_ref as B, model as M
    rng = random.Random(job["seed"])
    res = {"calls": 0, "requests": 0, "ops": {}, "bad": [], "geom": [], "sizes": [], "other_aspects": {}, "harness": [], "cfgs": [], "inconclusive": [], "samples": []}
    cfgs = [rigp.Cfg("v2c", client="async"), rigp.Cfg("v1", client="async", community="private"), rigp.Cfg("v3", client="async", engine_given=True),
            rigp.Cfg("v3", auth="sha1", client="async", engine_given=True, user="gather-a"), rigp.Cfg("v3", auth="md5", priv="des", client="async", engine_given=True, user="gd"),
            rigp.Cfg("v3", auth="sha1", priv="aes", client="async", engine_given=True, user="g" * 31), rigp.Cfg("v2c", client="async", community="c" * 40),
            rigp.Cfg("v3", auth="md5", priv="aes", client="async", engine_given=True, auth_kt="master", priv_kt="localized")]
    rng.shuffle(cfgs)
    cfgs = cfgs[:job.get("sessions", 6)]
    slots = []
    for cfg in cfgs:
        box = {"reqs": [], "serial": rng.randrange(1, 1 << 20) << 8}

        def handler(agent, req, box=box):
            box["reqs"].append(req)
            if not req.ok:
                return None

            def f(req):
                box["serial"] += 1
                box["last"] = box["serial"]
                time_d = box.get("delay", 0.0)
                oids = req.oids() or [(1, 3)]
                if req.pdu["tag"] == B.PDU_GET:
                    dg = agent.reply(req, [B.enc_varbind(o, B.enc_int(box["serial"])) for o in oids])
                else:
                    dg = agent.reply(req, [B.enc_varbind(oids[0] + (1,), B.enc_int(box["serial"]))])
                return [(time_d, dg)]
            return agent.discovery_or(req, f)
        agent = rigp.Agent(handler, users=[cfg.user_keys()], boots=rng.randrange(1, 1000), etime=rng.randrange(1, 100000)).start()
        slots.append({"cfg": cfg, "agent": agent, "box": box})
        res["cfgs"].append(cfg.key())

    async def main():
        for sl in slots:
            sl["s"] = rigp.make_session(sl["cfg"], sl["agent"], timeout=2.0)
            await sl["s"].__aenter__()
        for rnd in range(job["rounds"]):
            plan = []
            for sl in slots:
                op = rng.choice(["get", "get", "get_many", "getnext1", "getbulk1", "skip"])
                if op == "getbulk1" and sl["cfg"].version == "v1":
                    op = "getnext1"
                oids = [M.gen_oid(rng, 2, rng.choice([4, 14, 60])) for _ in range(1 if op != "get_many" else rng.choice([1, 2, 7, 30]))]
                sl["box"]["reqs"] = []
                sl["box"]["delay"] = rng.choice([0.0, 0.0, 0.002, 0.01, 0.03])
                plan.append((sl, op, oids))

            async def one(sl, op, oids):
                s = sl["s"]
                try:
                    if op == "skip":
                        return ("ok", None)
                    if op == "get":
                        return ("ok", await s.get(B.oid_text(oids[0])))
                    if op == "get_many":
                        return ("ok", await s.get_many([B.oid_text(o) for o in oids]))
                    it = s.getnext(B.oid_text(oids[0])) if op == "getnext1" else s.getbulk(B.oid_text(oids[0]))
                    return ("ok", await it.__anext__())
                except BaseException as e:
                    if isinstance(e, (KeyboardInterrupt, SystemExit)):
                        raise
                    return ("exc", rigp.exc_info(e))
            outs = await asyncio.gather(*[one(*p) for p in plan])
            for (sl, op, oids), out in zip(plan, outs):
                if op == "skip":
                    continue
                cfg, box = sl["cfg"], sl["box"]
                res["calls"] += 1
                res["ops"]["gather:" + op] = res["ops"].get("gather:" + op, 0) + 1
                v3 = cfg.version == "v3"
                synced = v3 and (cfg.auth or sl.get("answered"))   # boots/time are adopted from every accepted message
                sl["answered"] = sl.get("answered") or out[0] == "ok"
                st = {"engine_id": sl["agent"].engine_id if v3 else b"", "boots": sl["agent"].boots if synced else 0,
                      "time": sl["agent"].time if synced else 0, "user": cfg.user.encode(), "auth": bool(cfg.auth) and v3, "priv": bool(cfg.priv) and v3}
                tag = B.PDU_GET if op in ("get", "get_many") else (B.PDU_GETNEXT if op == "getnext1" else B.PDU_GETBULK)
                exp = {"tag": tag, "a": 0, "b": 20 if tag == B.PDU_GETBULK else 0, "oids": oids, "report": False}
                bad = []
                if out[0] == "exc" and out[1]["cls"] == "TimeoutError":
                    # load - or replies that are not delivered when sessions run concurrently?  Three consecutive rounds in
                    # which this session's agent answered (its own log: reply sent within 0.3 s of the request) decide.
                    log = sl["agent"].log[-4:]
                    rx = [t for k, t, _ in log if k == "rx"]
                    tx = [t for k, t, _ in log if k == "tx"]
                    answered = bool(rx and tx and tx[-1] >= rx[-1] and tx[-1] - rx[-1] < 0.3e9)
                    sl["streak"] = sl.get("streak", 0) + 1 if answered else 0
                    if sl["streak"] >= 3:
                        bad.append(("deaf", "three consecutive concurrent rounds timed out (2 s) although this session's agent answered each request within 0.3 s", None))
                        sl["streak"] = 0
                    else:
                        res["inconclusive"].append("gather: %s %s timed out (answered=%s)" % (cfg.key(), op, answered))
                        continue
                else:
                    sl["streak"] = 0
                if bad:
                    pass
                elif len(box["reqs"]) != 1:
                    bad.append(("count", "%d datagrams for one %s" % (len(box["reqs"]), op), box["reqs"][0] if box["reqs"] else None))
                else:
                    res["requests"] += 1
                    for aspect, msg in scenario.judge_request(box["reqs"][0], cfg, exp, st):
                        bad.append((aspect, msg, box["reqs"][0]))
                    want = box.get("last")
                    if op == "get":
                        good = out == ("ok", want)
                    elif op == "get_many":
                        good = out[0] == "ok" and isinstance(out[1], dict) and out[1] == {B.oid_text(o): want for o in oids}
                    else:
                        good = out == ("ok", (B.oid_text(oids[0] + (1,)), want))
                    if not good:
                        bad.append(("result", "%s returned %s; this session's agent answered this request with serial %s" % (op, repr(out)[:160], want), box["reqs"][0]))
                for aspect, msg, rq in bad:
                    if len(res["bad"]) < 100:
                        res["bad"].append({"aspect": aspect, "msg": "[%d sessions concurrently in one event loop] %s" % (len(slots), msg), "cfgkey": cfg.key(), "cfg": cfg.to_json(),
                                           "op": "gather:" + op, "args": repr([B.oid_text(o) for o in oids])[:200], "behaviour": "reply", "outcome": repr(out)[:160],
                                           "datagram": rq.raw.hex() if rq is not None else None, "state": {}})
                if len(res["samples"]) < 2 and rnd % 25 == 3:
                    res["samples"].append({"concurrent_sessions": [x["cfg"].key() for x in slots], "this_session": cfg.key(), "op": op,
                                           "oids": [B.oid_text(o) for o in oids][:3], "returned": repr(out)[:120], "agent_serial": box.get("last")})
    loop = asyncio.new_event_loop()
    try:
        loop.run_until_complete(main())
    finally:
        loop.close()
    for sl in slots:
        if sl["agent"].errors:
            res["harness"].append(sl["agent"].errors[0][-400:])
        sl["agent"].stop()
    return res


def rig_r(chk, tier, seed):
    # pool contention under Miri (data-race + aliasing + uninit monitor)
    n = 2 if tier == "quick" else 8
    st = {"runs": 0, "ops": 0}

    def one(i):
        try:
            return i, runner.run_miri("pool_threads", [seed * 10 + i, 4, 12 if tier == "quick" else 40], timeout=1500, seed=seed * 10 + i)
        except Exception as e:
            return i, e
    runner.run_miri("pool_threads", [0, 1, 1], timeout=900)
    for i, p in runner.parallel(one, range(n)):
        if isinstance(p, Exception):
            chk.inconc("miri pool_threads %d: %r" % (i, p))
            continue
        se = p.stderr.decode(errors="replace")
        if "Undefined Behavior" in se or "Data race" in se or "data race" in se:
            import re
            fr = re.search(r"(/repo/src/[\w/]+\.rs:\d+)", se)
            chk.violation("miri:pool:%s" % (fr.group(1) if fr else "?"), "Miri report in pool_threads: %s" % se[-600:], {"seed": seed * 10 + i})
            continue
        out = p.stdout.decode().strip().split("\n")[-1]
        try:
            d = json.loads(out)
        except ValueError:
            chk.inconc("miri pool_threads %d: rc=%s %s" % (i, p.returncode, se[-200:]))
            continue
        st["runs"] += 1
        st["ops"] += d["ops"]
        if d["bad"]:
            chk.violation("pool:dirty", "pool handed out a buffer that was not reset: %s" % d["bad"], d)
    # the same natively at scale (asan)
    p = runner.run_bin("asan", "pool_threads", [seed, 8, 20000 if tier == "quick" else 400000], timeout=1500)
    reps = runner.asan_reports(p.stderr.decode(errors="replace"))
    for kind, frame in reps:
        chk.violation("asan:%s:%s" % (kind, frame), "ASan %s at %s in pool_threads" % (kind, frame), {})
    try:
        d = json.loads(p.stdout.decode().strip().split("\n")[-1])
        st["asan_ops"] = d["ops"]
        if d["bad"]:
            chk.violation("pool:dirty", "pool handed out a buffer that was not reset: %s" % d["bad"], d)
    except (ValueError, IndexError):
        if not reps:
            chk.inconc("asan pool_threads gave no summary rc=%s" % p.returncode)
    chk.seen(st["ops"] + st.get("asan_ops", 0))
    chk.distinct.add("R:pool:miri")
    chk.extra["rig_r_pool"] = st


def main():
    a = runner.main_args()
    chk = runner.Check(PID, "exploration", a.tier, a.seed)
    chk.rule = ("random programs of get/get_many(0..60 oids)/getnext/getbulk(m in {1,2,127,128,255,256,65535,2^31-1,random})/fetch/refresh/"
                "context entry/invalid-OID/oversized calls over 5-8 live sessions per process (v1, v2c, v3 x digests x ciphers x key types, "
                "engine ids 5..32 octets, user names 0..200 octets, boots/time of every INTEGER width, sync+async, and 8 threads), agent "
                "replying / dropping / sending large or stray datagrams; every datagram at the agent strict-decoded (definite minimal lengths, "
                "minimal INTEGERs, nothing trailing) and compared field by field with the model; exactly-one-datagram-per-request counted. "
                "distinct = configurations and v3 header geometries (engine-id len, user len, boots/time widths, auth offset) observed.")
    chk.assumptions = ["expected boots/time are those of the last agent message the model classifies as accepted",
                       "pool interference is exercised by interleaving sessions and threads, not exhausted"]
    rig_p(chk, a.tier, a.seed)
    rig_r(chk, a.tier, a.seed)
    sys.exit(chk.finish())


if __name__ == "__main__":
    try:
        main()
    except (runner.HarnessError, build.BuildError) as e:
        print("HARNESS-ERROR: %s" % e)
        sys.exit(2)
