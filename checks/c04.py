"""C04 - Only the reply to the outstanding request is ever delivered.

Fault enumeration at the scripted agent: scripts of 1..4 consecutive requests;
for each request a list of injected datagrams (true reply, duplicates, delayed
past the next request, rewritten request-id / community / version / msgID /
user / engine id, truncated).  Every injected datagram carries a unique INTEGER
serial, so the delivered value names the datagram.  Oracle: executable
specification of the receive loop over the datagram queue, classified from the
ids actually seen on the wire."""
import itertools
import os
import random
import socket
import sys

from vlib import ber_ref as B
from vlib import build, driver, model as M, rigp, runner

PID = "C04"
KINDS_C = ["ok", "rid+1", "rid-1", "rid0", "ridneg", "rid+2^32", "rid-2^32", "stale", "comm_prefix", "comm_suffix", "comm_empty", "comm_case", "version", "trunc", "late", "dup",
           "echo_get", "echo_next", "echo_bulk"]
KINDS_3 = ["ok", "rid+1", "rid-1", "rid0", "ridneg", "rid+2^32", "rid-2^32", "stale", "msgid", "msgid+2^32", "user", "engine", "version", "trunc", "late", "dup", "report",
           "report_engine", "report_user", "report_msgid", "rid+1_privflag0", "stale_privflag0", "user_empty_f4", "user_empty_f0", "echo_get", "echo_next", "echo_bulk"]
ECHO = {"echo_get": B.PDU_GET, "echo_next": B.PDU_GETNEXT, "echo_bulk": B.PDU_GETBULK}
# only in the random scripts (the exhaustive part is quadratic in the number of kinds): credentials that differ from the
# session's by a tail of exactly 256 / 512 octets - equal for code that compares lengths in a u8 / prefix only
KINDS_EXTRA = ["user+256", "user+512", "engine+256", "comm+256", "comm+512", "rid+1_f4", "stale_f4"]
T_SHORT = 0.25


def kinds_for(cfg):
    return KINDS_3 if cfg.version == "v3" else KINDS_C


class Script:
    """Runs one script on a live session and judges it against the spec."""

    def __init__(self, cfg, agent, drv, rng):
        self.cfg, self.agent, self.drv, self.rng = cfg, agent, drv, rng
        self.serial = rng.randrange(1, 1 << 20) * 1000
        self.queue = []      # datagrams sent to the client, not yet consumed (model of the socket queue)
        self.held = []
        self.req_ids = []    # (request_id, msg_id) of every request seen
        self.cur = None
        self.oid = (1, 3, 6, 1, 4, 1, 9, rng.randrange(1, 1000))

    def inject(self, agent, req, kinds):
        """Build the datagrams for this request; returns list of bytes (order = send order)."""
        out = list(self.held)
        self.held = []
        prev = self.req_ids[-2] if len(self.req_ids) >= 2 else None
        for k in kinds:
            self.serial += 1
            name = self.oid + (1,)
            vb = [B.enc_varbind(name, B.enc_int(self.serial))]
            d = {"serial": self.serial, "kind": k, "rid": req.request_id, "mid": req.m.get("msg_id") if req.version == 3 else None,
                 "creds": True, "version_ok": True, "trunc": False, "report": False}
            ov = {}
            if k in ("ok", "late", "dup"):
                pass
            elif k == "rid+1":
                d["rid"] = (req.request_id + 1) & 0x7FFFFFFF
            elif k == "rid-1":
                d["rid"] = req.request_id - 1
            elif k == "rid0":
                d["rid"] = 0
            elif k == "ridneg":
                d["rid"] = -req.request_id - 1
            elif k == "rid+2^32":
                d["rid"] = req.request_id + (1 << 32)
            elif k == "rid-2^32":
                d["rid"] = req.request_id - (1 << 32)
            elif k == "msgid+2^32":
                d["mid"] = req.m["msg_id"] + (1 << 32)
                ov["msg_id"] = d["mid"]
            elif k == "rid+1_privflag0":
                # (meaningful with privacy: ciphertext whose clear-text flags deny it) must be skipped like any wrong request-id
                d["rid"] = (req.request_id + 1) & 0x7FFFFFFF
                if req.m["flags"] & 2:
                    ov["flags"], ov["encrypt"] = req.m["flags"] & 1, True
            elif k == "stale_privflag0":
                d["rid"] = prev[0] if prev else (req.request_id ^ 0x3333)
                if req.m["flags"] & 2:
                    ov["flags"], ov["encrypt"] = req.m["flags"] & 1, True
            elif k == "stale":
                d["rid"] = prev[0] if prev else (req.request_id ^ 0x5555)
                if req.version == 3 and prev:
                    d["mid"] = prev[1]
                    ov["msg_id"] = prev[1]
            elif k.startswith("comm_"):
                c = req.m["community"]
                ov["community"] = {"comm_prefix": c[:-1] if c else b"x", "comm_suffix": c + b"x", "comm_empty": b"" if c else b"y",
                                   "comm_case": c.swapcase() if c.swapcase() != c else c + b"Z"}[k]
                d["creds"] = False
            elif k == "version":
                d["version_ok"] = False
                ov["version"] = {0: 1, 1: 0, 3: 1}[req.version]
                if req.version == 3:
                    ov["community"] = b"public"
            elif k == "msgid":
                d["mid"] = (req.m["msg_id"] + 1) & 0x7FFFFFFF
                ov["msg_id"] = d["mid"]
            elif k == "user":
                ov["user"] = req.m["usm"]["user"] + b"x"
                ov["auth_user"] = agent.users.get(req.m["usm"]["user"])
                d["creds"] = False
            elif k in ECHO:
                # a *request* PDU (someone's GET / GETNEXT / GETBULK reflected to us, e.g. an earlier bulk step echoed
                # late) with a foreign request-id: well-formed, of the session's version and credentials - skipped
                d["rid"] = (req.request_id + 1) & 0x7FFFFFFF
                ov["pdu_tag_override"] = ECHO[k]
            elif k in ("user_empty_f4", "user_empty_f0"):
                # a Response (not a Report) without user name, unauthenticated and in clear, msgFlags = reportable only / none:
                # what a discovery Report's header looks like, around an ordinary answer
                ov.update(user=b"", flags=4 if k.endswith("f4") else 0, mac="empty", encrypt=False)
                d["creds"] = False
            elif k in ("rid+1_f4", "stale_f4"):
                # a Response with a foreign request-id whose msgFlags also carry the reportable bit (0x04): the bit says
                # nothing about the PDU being a Report
                if req.version != 3:
                    continue
                d["rid"] = (req.request_id + 1) & 0x7FFFFFFF if k == "rid+1_f4" else (prev[0] if prev else (req.request_id ^ 0x1111))
                ov["flags"] = (req.m["flags"] & 3) | 4
            elif k in KINDS_EXTRA:
                n = int(k.split("+")[1])
                d["creds"] = False
                if k.startswith("comm"):
                    if req.version == 3:
                        continue
                    ov["community"] = req.m["community"] + b"q" * n
                elif req.version != 3:
                    continue
                elif k.startswith("user"):
                    ov["user"] = req.m["usm"]["user"] + b"q" * n
                    ov["auth_user"] = agent.users.get(req.m["usm"]["user"])
                else:
                    ov["engine_id"] = agent.engine_id + bytes(n)
            elif k == "engine":
                ov["engine_id"] = agent.engine_id + b"\x01"
                d["creds"] = False
            elif k == "report":
                d["report"] = True
                d["rid"] = (req.request_id + 7) & 0x7FFFFFFF
            elif k in ("report_engine", "report_user", "report_msgid"):
                # a Report bypasses only the request-id test: foreign engine id / user / msgID must still be skipped
                d["report"] = True
                if k == "report_engine":
                    ov["engine_id"] = agent.engine_id + b"\x02"
                    d["creds"] = False
                elif k == "report_user":
                    ov["user"] = req.m["usm"]["user"] + b"y"
                    ov["auth_user"] = agent.users.get(req.m["usm"]["user"])
                    d["creds"] = False
                else:
                    d["mid"] = (req.m["msg_id"] + 3) & 0x7FFFFFFF
                    ov["msg_id"] = d["mid"]
            if d["rid"] != req.request_id:
                ov["request_id"] = d["rid"]
            if k in ECHO:
                tag = ov.pop("pdu_tag_override")
                dg = agent.reply(req, [B.enc_varbind(name, B.enc_null())], pdu_tag=tag, **(dict(ov, error_index=10) if tag == B.PDU_GETBULK else ov))
            elif k.startswith("report"):
                dg = agent.reply(req, vb, pdu_tag=B.PDU_REPORT, **ov)
            else:
                dg = agent.reply(req, vb, **ov)
            if k == "trunc":
                cut = self.rng.randrange(1, len(dg))
                dg = dg[:cut]
                d["trunc"] = True
            d["dg"] = dg
            if k == "late":
                self.held.append(d)
            elif k == "dup":
                d2 = dict(d)
                out += [d, d2]
            else:
                out.append(d)
        return out

    def run(self, op, plan):
        """plan: list (one per request) of lists of kinds. Returns list of step records."""
        recs = []
        name_txt = B.oid_text(self.oid)
        for kinds in plan:
            st = {"kinds": kinds}
            self.cur = st

            def handler(agent, req, kinds=kinds, st=st):
                if not req.ok:
                    st["agent_err"] = req.err
                    return None
                self.req_ids.append((req.request_id, req.m.get("msg_id") if req.version == 3 else None))
                ds = self.inject(agent, req, kinds)
                st["sent"] = ds
                self.queue += ds
                return [d["dg"] for d in ds]
            self.agent.handler = handler
            if op == "get":
                out = self.drv.call("get", name_txt)
            elif op == "get_many":
                out = self.drv.call("get_many", [name_txt + ".1"])
            else:
                out = self.drv.call(op, name_txt)
            st["out"] = out
            recs.append(st)
            # model: consume the queue
            rid, mid = self.req_ids[-1] if self.req_ids and "sent" in st else (None, None)
            verdict, consumed = ("timeout", None), 0
            for d in self.queue:
                consumed += 1
                if d["trunc"] or not d["version_ok"]:
                    verdict = ("decode_error", d)
                    break
                match_env = d["creds"] and (self.cfg.version != "v3" or d["mid"] == mid)
                if match_env and d["report"]:
                    verdict = ("unjudged", d)
                    break
                if match_env and d["rid"] == rid:
                    verdict = ("deliver", d)
                    break
            else:
                consumed = len(self.queue)
            self.queue = self.queue[consumed:]
            st["model"] = (verdict[0], verdict[1]["serial"] if verdict[1] else None, verdict[1]["kind"] if verdict[1] else None)
            if verdict[0] == "unjudged":
                st["judged"] = None
                break
            st["judged"] = judge(op, out, verdict, name_txt)
            if st["judged"] is not None:
                break
        return recs


def judge(op, out, verdict, name_txt):
    """None if the observed outcome is what the spec allows, else a message."""
    kind, d = verdict
    if kind == "timeout":
        if out[0] == "exc" and out[1]["cls"] == "TimeoutError":
            return None
        return "no matching reply was queued, the call must time out; it gave %s" % repr(out)[:160]
    if kind == "decode_error":
        if out[0] == "exc" and "DecodeError" in out[1]["cls"]:
            return None
        return "a datagram that does not decode as the session's version (%s) was first in the queue; expected SnmpDecodeError, got %s" % (d["kind"], repr(out)[:160])
    want = d["serial"]
    if out[0] != "ok":
        return "the matching reply (serial %d, kind %s) was queued but the call gave %s" % (want, d["kind"], repr(out)[:160])
    v = out[1]
    got = None
    if op == "get":
        got = v
    elif op == "get_many":
        got = list(v.values())[0] if isinstance(v, dict) and len(v) == 1 else v
    else:
        got = v[1][1] if isinstance(v, tuple) and v[0] == "item" else v
    if got != want:
        return "delivered value %r, but the reply to the outstanding request carries serial %d (kind %s)" % (got, want, d["kind"])
    return None


def drain(fd):
    # MSG_DONTWAIT, not setblocking(False): the dup shares its file status flags with the client's socket
    s = socket.socket(fileno=os.dup(fd))
    n = 0
    try:
        while True:
            s.recv(65535, socket.MSG_DONTWAIT)
            n += 1
    except (BlockingIOError, OSError):
        pass
    os.close(s.detach())
    return n


def settle(agent, nreq):
    """Barrier: every request of the script has reached the agent and been answered
    (a call can time out before a loaded agent thread even saw its request)."""
    import time
    t_end = time.time() + 3.0
    while len(agent.reqs) < nreq and time.time() < t_end:
        time.sleep(0.001)
    agent.wait_idle()


def worker(job):
    import gufo.snmp  # noqa: F401
    prog = runner.Progress(job.get("_progress"))
    rng = random.Random(job["seed"])
    cfg = rigp.Cfg.from_json(job["cfg"])
    res = {"scripts": 0, "requests": 0, "datagrams": 0, "bad": [], "unjudged": 0, "verdicts": {}, "inconclusive": [], "kinds": {}}
    agent = rigp.Agent(None, users=[cfg.user_keys()], rng=random.Random(job["seed"])).start()

    def mk(timeout):
        agent.handler = lambda a, r: a.discovery_or(r, lambda q: a.reply(q, []))
        d = driver.Driver(cfg, agent, timeout=timeout).create()
        d.call("open")
        return d
    drv = mk(T_SHORT)
    slow = None
    for si, (op, plan) in enumerate(job["scripts"]):
        prog.mark({"cfg": cfg.key(), "script": si})
        if op == "getbulk1" and cfg.version == "v1":
            op = "getnext1"
        n0 = len(agent.reqs)
        sc = Script(cfg, agent, drv, random.Random(job["seed"] * 7 + si))
        recs = sc.run(op, plan)
        settle(agent, n0 + len(recs))
        res["scripts"] += 1
        bad = next((r for r in recs if r.get("judged")), None)
        if bad is not None:
            # re-confirm twice with a generous timeout (rules out scheduling delays)
            confirmed = 0
            for _ in range(2):
                if slow is None:
                    slow = mk(1.2)
                agent.wait_idle()
                drain(slow.s._sock.get_fd())
                n1 = len(agent.reqs)
                sc2 = Script(cfg, agent, slow, random.Random(job["seed"] * 7 + si))
                r2 = sc2.run(op, plan)
                settle(agent, n1 + len(r2))
                b2 = next((r for r in r2 if r.get("judged")), None)
                if b2 is not None and b2["model"][0] == bad["model"][0]:
                    confirmed += 1
            if confirmed == 2:
                if len(res["bad"]) < 60:
                    res["bad"].append({"cfgkey": cfg.key(), "cfg": cfg.to_json(), "op": op, "plan": plan, "msg": bad["judged"],
                                       "model": bad["model"], "step": recs.index(bad),
                                       "datagrams": [d["dg"].hex() for r in recs for d in r.get("sent", [])][:12]})
            else:
                res["inconclusive"].append("%s %s %s: mismatch not reproduced with a 1.2 s timeout (%d/2): %s" % (cfg.key(), op, plan, confirmed, bad["judged"][:100]))
        if len(res.setdefault("samples", [])) < 2 and si % 50 == 7:
            res["samples"].append({"cfg": cfg.key(), "op": op, "script": plan, "per_request": [
                {"injected": [(d["kind"], d["serial"]) for d in r.get("sent", [])], "spec_says": r.get("model"), "call_returned": repr(r.get("out"))[:100]} for r in recs]})
        for r in recs:
            if "agent_err" in r:
                res["inconclusive"].append("agent could not parse a request: %s" % r["agent_err"])
            res["requests"] += 1
            res["datagrams"] += len(r.get("sent", []))
            if r.get("judged", 0) is None and r["model"][0] == "unjudged":
                res["unjudged"] += 1
            key = "%s|%s" % (r["model"][0], r["model"][2])
            res["verdicts"][key] = res["verdicts"].get(key, 0) + 1
            for k in r["kinds"]:
                res["kinds"][k] = res["kinds"].get(k, 0) + 1
        agent.wait_idle()
        drain(drv.s._sock.get_fd())
    agent.stop()
    return res


OID = (1, 3, 6, 1, 2, 1, 1, 5, 0)
DISC_VARIANTS = ["foreign_engine+msgid", "foreign_engine+user", "own_engine+msgid", "foreign_engine+msgid x2", "foreign_response+rid"]


def disc_worker(job):
    """Discovery phase (v3 session without engine id): non-matching datagrams arriving before the genuine Report are
    skipped - the later genuine Report still completes discovery, and requests are then answered by *the agent*."""
    import gufo.snmp  # noqa: F401
    cfg = rigp.Cfg.from_json(job["cfg"])
    rng = random.Random(job["seed"])
    res = {"cases": 0, "bad": [], "inconclusive": [], "classes": {}}
    agent = rigp.Agent(None, users=[cfg.user_keys()], rng=random.Random(job["seed"])).start()
    st = {}

    def handler(a, req):
        if not (req.ok and req.version == 3):
            return None
        if req.m["usm"]["engine_id"] == b"":
            out = []
            var = st["variant"]
            fe = bytes([0x80, 0, 0xC0, 0xDE]) + bytes(rng.randrange(256) for _ in range(rng.choice([1, 4, 8, 13])))
            mid = (req.m["msg_id"] + rng.choice([1, -1, 9])) & 0x7FFFFFFF
            if var.startswith("foreign_engine+msgid"):
                for _ in range(2 if var.endswith("x2") else 1):
                    out.append(a.report(req, rigp.REPORT_UNKNOWN_ENGINE, flags=0, mac="empty", encrypt=False, engine_id=fe, msg_id=mid, boots=77, time=7))
            elif var == "foreign_engine+user":
                out.append(a.report(req, rigp.REPORT_UNKNOWN_ENGINE, flags=0, mac="empty", encrypt=False, engine_id=fe, user=b"someone-else", boots=77, time=7))
            elif var == "own_engine+msgid":
                out.append(a.report(req, rigp.REPORT_UNKNOWN_ENGINE, flags=0, mac="empty", encrypt=False, msg_id=mid))
            elif var == "foreign_response+rid":
                out.append(a.reply(req, [B.enc_varbind((1, 3, 9), B.enc_int(666))], flags=0, mac="empty", encrypt=False, engine_id=fe,
                                   request_id=(req.request_id + 5) & 0x7FFFFFFF, boots=77, time=7))
            st["strays"] = st.get("strays", 0) + len(out)
            out.append(a.report(req, rigp.REPORT_UNKNOWN_ENGINE, flags=0, mac="empty", encrypt=False))
            return out
        return a.discovery_or(req, lambda q: a.reply(q, [B.enc_varbind(OID, B.enc_int(st["serial"]))]))
    agent.handler = handler
    serial = 5000
    for i in range(job["n"]):
        var = DISC_VARIANTS[i % len(DISC_VARIANTS)]
        verdicts = []
        for attempt, tmo in enumerate((0.4, 1.5, 1.5)):
            serial += 1
            st.update(variant=var, serial=serial, strays=0)
            drv = driver.Driver(cfg, agent, timeout=tmo).create()
            o1 = drv.call("open")
            o2 = drv.call("get", B.oid_text(OID))
            eng = None
            try:
                eng = agent.reqs[-1].m["usm"]["engine_id"] if agent.reqs and agent.reqs[-1].ok else None
            except Exception:
                pass
            drv.close()
            agent.wait_idle()
            good = o1[0] == "ok" and o2 == ("ok", serial)
            verdicts.append((repr(o1)[:80], repr(o2)[:80], eng.hex() if eng is not None else None))
            if good:
                break
        res["cases"] += 1
        res["classes"]["disc:" + var] = 1
        if len(verdicts) == 3:
            if len(res["bad"]) < 20:
                res["bad"].append({"cfgkey": cfg.key(), "variant": var, "msg": "discovery with %s arriving before the genuine Report: the session did not "
                                   "come up / did not get the agent's answer, 3 times out of 3 (open, get, engine id of the last request): %s; agent engine id %s"
                                   % (var, verdicts, agent.engine_id.hex())})
        elif len(verdicts) > 1:
            res["inconclusive"].append("%s discovery %s: first attempt failed (%s), a repeat with 1.5 s timeout passed" % (cfg.key(), var, verdicts[0]))
    agent.stop()
    return res


def gen_scripts(cfg, tier, rng):
    ks = kinds_for(cfg)
    ops = ["get", "get_many", "getnext1", "getbulk1"]
    scripts = []
    # exhaustive: 1 request, up to 2 (quick) / 3 (thorough) injected datagrams
    maxd = 2 if tier == "quick" else 3
    for n in range(0, maxd + 1):
        for combo in itertools.product(ks, repeat=n):
            if combo.count("late") and n == 1:
                pass
            scripts.append((ops[len(scripts) % 4], [list(combo)]))
    # exhaustive: 2 requests with <= 1 datagram each (quick) / <= 2 over a reduced kind set (thorough)
    red = [k for k in ks if k in ("ok", "stale", "late", "dup", "trunc", "rid+1", "version", "msgid", "comm_suffix", "report", "report_engine")]
    per = [[]] + [[k] for k in ks]
    if tier != "quick":
        per = [[]] + [[k] for k in red] + [[a, b] for a in red for b in red]
    for p1 in per:
        for p2 in per:
            scripts.append((ops[len(scripts) % 4], [p1, p2]))
    # every walk step after a request that ended without a delivered reply (the exhaustive part above gives each pair one
    # operation only): state kept per socket rather than per iterator shows here
    for op in ("getnext1", "getbulk1", "get"):
        for p1 in ([], ["late"], ["trunc"], ["version"], ["rid+1"], ["version", "ok"], ["trunc", "ok", "ok"], ["version", "dup"]):
            for p2 in (["ok"], ["dup"], ["stale"], ["late", "ok"], ["stale", "ok"]):
                scripts.append((op, [list(p1), list(p2)]))
                scripts.append((op, [list(p1), list(p2), ["ok"]]))
    # thorough: exhaustive 3 requests with <= 1 datagram over the reduced set
    if tier != "quick":
        per1 = [[]] + [[k] for k in red]
        for p in itertools.product(per1, repeat=3):
            scripts.append((ops[len(scripts) % 4], [list(x) for x in p]))
    # random: 3..4 requests, 0..3 datagrams each
    for _ in range(90 if tier == "quick" else 1500):
        n = rng.choice([3, 4])
        scripts.append((rng.choice(ops), [[rng.choice(ks + KINDS_EXTRA) for _ in range(rng.choice([0, 1, 1, 2, 3]))] for _ in range(n)]))
    return scripts


def main():
    a = runner.main_args()
    chk = runner.Check(PID, "fault_enumeration", a.tier, a.seed)
    chk.rule = ("scripts of 1..4 consecutive requests x per-request lists of injected datagrams from {true reply, duplicate, delay past the next "
                "request, request-id +1/-1/0/negative/stale, community prefix/suffix/empty/case, version, msgID, user, engine id, truncate, "
                "v3 Report}; exhaustive for 1 request with <= 2 (quick) / 3 (thorough) datagrams and for 2 requests (<= 1 each quick; <= 2 over "
                "a reduced set thorough; 3 requests x <= 1 thorough), random for 3..4 requests; x {v1, v2c, v3 noAuth, v3 auth+priv} x {sync, "
                "async} x {get, get_many, getnext, getbulk}. Oracle: receive-loop spec over the modelled socket queue; every datagram has a "
                "unique serial; a mismatch is re-run twice with a 1.2 s timeout before it is reported. distinct = (model verdict, datagram "
                "kind that decided it) x configuration.")
    chk.assumptions = ["loopback preserves the agent's send order and does not drop bursts of <= 8 datagrams",
                       "Reports with matching msgID but foreign request-id are exercised but not judged (RFC 3412 allows request-id 0 in Reports)"]
    rng = random.Random(a.seed)
    cfgs = []
    for cl in ("sync", "async"):
        cfgs += [rigp.Cfg("v1", client=cl), rigp.Cfg("v2c", client=cl), rigp.Cfg("v3", client=cl, engine_given=True),
                 rigp.Cfg("v3", auth="sha1", priv="aes", client=cl), rigp.Cfg("v3", auth="md5", priv="des", client=cl, engine_given=True)]
    jobs = []
    for ci, cfg in enumerate(cfgs):
        sc = gen_scripts(cfg, a.tier, random.Random(a.seed * 17 + ci))
        random.Random(a.seed + ci).shuffle(sc)
        nsh = 4 if a.tier == "quick" else 6
        for sh in range(nsh):
            jobs.append({"seed": a.seed * 1009 + ci * 10 + sh, "cfg": cfg.to_json(), "scripts": sc[sh::nsh]})
    # the workers spend most of their time waiting for timeouts to expire: oversubscribe the cores
    outs = runner.run_workers("checks.c04", "worker", jobs, variant="rel", timeout=3000, nproc=40)
    st = {"scripts": 0, "requests": 0, "datagrams": 0, "unjudged": 0, "kinds": {}}
    for o in outs:
        res = o["result"]
        cfgkey = rigp.Cfg.from_json(o["job"]["cfg"]).key()
        if res is None:
            if o["rc"] == "timeout":
                chk.inconc("worker timeout at %s" % o["progress"])
            else:
                chk.violation("abort:rigp", "worker died rc=%s at %s: %s" % (o["rc"], o["progress"], o["stderr"][-300:]), {})
            continue
        if "harness_error" in res:
            raise runner.HarnessError(res["harness_error"])
        for x in res["inconclusive"][:3]:
            chk.inconc(x)
        for x in res.get("samples", [])[:1]:
            chk.sample(x, limit=6)
        for k in ("scripts", "requests", "datagrams", "unjudged"):
            st[k] += res[k]
        for k, v in res["kinds"].items():
            st["kinds"][k] = st["kinds"].get(k, 0) + v
        for k in res["verdicts"]:
            chk.distinct.add("%s|%s" % (cfgkey.split("/")[0] + "/" + cfgkey.split("/")[-1], k))
        for b in res["bad"]:
            chk.violation("%s:%s:%s" % (b["model"][0], b["model"][2], b["cfgkey"].split("/")[0]),
                          "[%s %s] script %s: %s" % (b["cfgkey"], b["op"], b["plan"], b["msg"]), b)
    chk.seen(st["requests"])
    # discovery phase
    dcfgs = [rigp.Cfg("v3", client=cl, auth=au, priv=pr, empty_engine=ee) for cl in ("sync", "async")
             for au, pr, ee in ((None, None, False), ("md5", None, True), ("sha1", "aes", False))]
    dj = [{"seed": a.seed * 31 + i, "cfg": c.to_json(), "n": len(DISC_VARIANTS) * (2 if a.tier == "quick" else 20)} for i, c in enumerate(dcfgs)]
    outs = runner.run_workers("checks.c04", "disc_worker", dj, variant="rel", timeout=3000)
    st["discovery_cases"] = 0
    for o in outs:
        res = o["result"]
        if res is None:
            if o["rc"] == "timeout":
                chk.inconc("discovery worker timeout")
            else:
                chk.violation("abort:rigp", "discovery worker died rc=%s: %s" % (o["rc"], o["stderr"][-300:]), {})
            continue
        if "harness_error" in res:
            raise runner.HarnessError(res["harness_error"])
        for x in res["inconclusive"][:3]:
            chk.inconc(x)
        st["discovery_cases"] += res["cases"]
        for c in res["classes"]:
            chk.distinct.add(c)
        for b in res["bad"]:
            chk.violation("discovery:%s" % b["variant"], "[%s] %s" % (b["cfgkey"], b["msg"]), b)
    chk.seen(st["discovery_cases"])
    chk.extra.update(st)
    chk.extra["exhaustive"] = True
    chk.floor("scripts", st["scripts"], 3000)
    sys.exit(chk.finish())


if __name__ == "__main__":
    try:
        main()
    except (runner.HarnessError, build.BuildError) as e:
        print("HARNESS-ERROR: %s" % e)
        sys.exit(2)
