"""C09 - Every outgoing authenticated message carries a correct HMAC-96.

Rig P: v3 traffic with moving auth-parameter offsets (engine id / user name /
boots-time widths / PDU sizes), every digest x cipher x key type, on pooled
buffers with arbitrary history; the agent recomputes the MAC with hmac/hashlib
under the reference-localized key.  Rig R: `sign` on messages of every size."""
import random
import sys

from checks import c03
from vlib import build, crypto_ref as C, runner

PID = "C09"
ASPECTS = ["mac", "auth_flag", "strict", "panic", "deaf", "create"]


def rig_r(chk, tier, seed):
    rng = random.Random(seed)
    plans = [("rel", list(range(60, 4081, 7 if tier == "quick" else 1))), ("asan", list(range(60, 4081, 61 if tier == "quick" else 9))),
             ("miri", [60, 63, 64, 65, 127, 128, 129, 255, 256, 1000, 4080] if tier == "quick" else list(range(60, 4081, 97)))]
    st = {}
    for variant, sizes in plans:
        if variant != "miri":
            build.build(variant)
        cases = []
        for n in sizes:
            for alg, kl in ((1, 16), (2, 20)):
                key = bytes(rng.randrange(256) for _ in range(kl))
                off = rng.randrange(0, n - 12 + 1)
                msg = bytearray(rng.randrange(256) for _ in range(n))
                msg[off:off + 12] = bytes(12)
                cases.append((alg, key, off, bytes(msg)))
        lines = ["sign\t%d\t%s\t%d\t%s" % (alg | 0x80, key.hex(), off, msg.hex()) for alg, key, off, msg in cases]
        chunks = [lines[i::16] for i in range(16)] if variant != "miri" else [lines[i::8] for i in range(8)]
        cchunks = [cases[i::16] for i in range(16)] if variant != "miri" else [cases[i::8] for i in range(8)]
        if variant == "miri":
            runner.ldrive("miri", [], timeout=900)
        outs = runner.parallel(lambda ch: runner.ldrive(variant, ch, timeout=3000), chunks)
        n_ok = 0
        for (p, out), cs in zip(outs, cchunks):
            se = p.stderr.decode(errors="replace")
            if variant == "miri" and ("Undefined Behavior" in se or "data race" in se.lower()):
                chk.violation("miri:sign", "Miri report in sign(): %s" % se[-500:], {})
                continue
            if len(out) != len(cs):
                reps = runner.asan_reports(se)
                chk.violation("rigr:died:%s" % (reps[0][1] if reps else variant), "ldrive %s died: %s" % (variant, se[-300:]), {})
                continue
            for (alg, key, off, msg), o in zip(cs, out):
                want = bytearray(msg)
                want[off:off + 12] = C.hmac96(alg, key, msg)
                if o[0] != "ok" or bytes.fromhex(o[1]) != bytes(want):
                    chk.violation("sign:%s" % ("md5" if alg == 1 else "sha1"),
                                  "sign() on a %d-octet message at offset %d [%s]: got %s" % (len(msg), off, variant, "\t".join(o)[:120]),
                                  {"alg": alg, "key": key.hex(), "off": off, "msg": msg.hex()})
                else:
                    n_ok += 1
                chk.distinct.add("R:size:%d" % (len(msg) // 64))
        st[variant] = {"signed_messages": sum(len(c) for c in cchunks), "correct": n_ok}
        chk.seen(n_ok)
    chk.extra["rig_r_sign"] = st


def rig_p(chk, tier, seed):
    variants = ["rel"] if tier == "quick" else ["rel", "dbg", "asan"]
    stats = {}
    for variant in variants:
        steps = 500 if tier == "quick" else (20000 if variant == "rel" else 3000)
        knobs = {"sessions": 6, "versions": ["v3"], "auths": ["md5", "sha1", "md5", "sha1", None],
                 "engine_lens": [5, 6, 8, 11, 12, 17, 24, 31, 32, 200], "ident_widths": [1, 2, 3, 4],
                 "ops": ["get", "get_many", "getnext", "getbulk", "fetch", "refresh"]}
        jobs = [{"seed": seed * 99991 + i, "steps": steps, "aspects": ASPECTS, "knobs": knobs} for i in range(16)]
        outs = runner.run_workers("vlib.scenario", "worker", jobs, variant=variant, timeout=3000)
        stats[variant] = c03.collect(chk, outs, variant, PID)
        chk.seen(stats[variant]["requests"])
    chk.extra["rig_p"] = stats
    chk.floor("v3_datagrams_judged", sum(s["requests"] for s in stats.values()), 5000)
    offs = sorted({eval(d[5:])[4] for d in chk.distinct if d.startswith("geom:") and eval(d[5:])[5]})
    chk.extra["distinct_auth_param_offsets"] = len(offs)
    chk.extra["auth_param_offset_range"] = [offs[0], offs[-1]] if offs else []
    chk.floor("distinct_auth_param_offsets", len(offs), 10)


def raw_worker(job):
    """The socket object used directly (what the Python sessions do internally, in other orders): created with the
    real credentials and no engine id, engine id learnt from the first accepted reply, then set_keys() again - with
    the same or with other credentials, once or twice, before or after the discovery.  Every datagram sent after a
    set_keys() that followed the discovery must carry a MAC under the key localized to the engine id it names."""
    import gufo.snmp  # noqa: F401
    from gufo.snmp._fast import SnmpV3ClientSocket
    from vlib import ber_ref as B, rigp
    rng = random.Random(job["seed"])
    res = {"cases": 0, "datagrams": 0, "bad": [], "inconclusive": []}
    for au, pr, kt in job["combos"]:
        cfg = rigp.Cfg("v3", user="raw-%s" % au, auth=au, priv=pr, auth_kt=kt, priv_kt=kt, auth_pw=b"raw-auth-pass-%d" % rng.randrange(100),
                       priv_pw=b"raw-priv-pass-%d" % rng.randrange(100))
        box = {"reqs": []}

        def handler(agent, req, box=box):
            box["reqs"].append(req)
            if not req.ok:
                return None
            return agent.discovery_or(req, lambda q: agent.reply(q, [B.enc_varbind((1, 3, 6, 1, 2, 1, 1, 5, 0), B.enc_int(7))]))
        eng = bytes([0x80, 0, 0x1F, 0x88] + [rng.randrange(256) for _ in range(rng.choice([1, 8, 13, 28]))])
        agent = rigp.Agent(handler, engine_id=eng, users=[cfg.user_keys()]).start()
        u = rigp.make_user(cfg, eng)
        other = rigp.make_user(rigp.Cfg("v3", user=cfg.user, auth=au, priv=pr, auth_kt=kt, priv_kt=kt, auth_pw=b"another-pass", priv_pw=b"another-priv"), eng)
        creds = (u.name, u.get_auth_alg(), u.get_auth_key(), u.get_priv_alg(), u.get_priv_key())
        ocreds = (other.name, other.get_auth_alg(), other.get_auth_key(), other.get_priv_alg(), other.get_priv_key())
        loc = rigp.make_user(rigp.Cfg("v3", user=cfg.user, auth=au, priv=pr, auth_kt="localized", priv_kt="localized", auth_pw=cfg.auth_pw, priv_pw=cfg.priv_pw), eng)
        lcreds = (loc.name, loc.get_auth_alg(), loc.get_auth_key(), loc.get_priv_alg(), loc.get_priv_key())
        for order in job["orders"]:
            res["cases"] += 1
            box["reqs"] = []
            expect_nokey = False
            try:
                sock = SnmpV3ClientSocket("127.0.0.1:%d" % agent.port, b"", *creds, 0, 0, 0, 1_000_000_000)
                judged_from = None
                for step in order:
                    if step == "localized_first":
                        # keys installed BEFORE the engine id is known, in a form that does not depend on it: what the
                        # socket learns later must not bring the constructor's credentials back
                        sock.set_keys(*lcreds)
                        judged_from = len(box["reqs"]) + 1     # from the request after the discovery exchange
                        continue
                    if step == "nokey_first":
                        sock.set_keys(cfg.user, 0, b"", 0, b"")
                        judged_from, expect_nokey = len(box["reqs"]) + 1, True
                        continue
                    if step == "refresh":
                        sock.send_refresh()
                        sock.recv_refresh()
                    elif step == "same":
                        sock.set_keys(*creds)
                        if sock.get_engine_id() == eng:
                            judged_from = len(box["reqs"])
                    elif step == "other":
                        sock.set_keys(*ocreds)
                        judged_from = None
                    elif step == "get":
                        sock.send_get("1.3.6.1.2.1.1.5.0")
                        try:
                            sock.recv_get()
                        except Exception:
                            pass
            except (BlockingIOError, TimeoutError):
                res["inconclusive"].append("raw socket history %s timed out (load?) - agent saw %s" % (order, [(r.ok, r.err) for r in box["reqs"]][-2:]))
                continue
            except BaseException as e:
                res["bad"].append({"sig": "raw:exception", "msg": "[%s/%s/%s] raw socket history %s raised %r" % (au, pr, kt, order, e)})
                continue
            import time
            time.sleep(0.01)
            for k, rq in enumerate(box["reqs"]):
                if judged_from is None or k < judged_from:
                    continue
                res["datagrams"] += 1
                if not rq.ok:
                    res["bad"].append({"sig": "raw:strict", "msg": "[%s/%s/%s] history %s: datagram %d malformed: %s" % (au, pr, kt, order, k, rq.err)})
                elif expect_nokey:
                    if rq.m["flags"] & 1 or rq.m["usm"]["auth_params"]:
                        res["bad"].append({"sig": "raw:nokey", "msg": "[%s/%s/%s] history %s: datagram %d carries auth flag %d and %d octets of msgAuthenticationParameters although the "
                                           "keys were replaced by a user without keys" % (au, pr, kt, order, k, rq.m["flags"] & 1, len(rq.m["usm"]["auth_params"])), "datagram": rq.raw.hex()})
                elif rq.m["usm"]["engine_id"] == eng and not (rq.m["flags"] & 1 and rq.mac_ok):
                    res["bad"].append({"sig": "raw:mac", "msg": "[%s/%s/%s] history %s: datagram %d names engine id %s with auth flag %d but its HMAC-96 does not verify "
                                       "under the user's key localized to that engine id" % (au, pr, kt, order, k, eng.hex(), rq.m["flags"] & 1), "datagram": rq.raw.hex()})
        agent.stop()
    return res


def main():
    a = runner.main_args()
    chk = runner.Check(PID, "exploration", a.tier, a.seed)
    chk.rule = ("v3 sessions over {MD5,SHA-1} x {none,DES,AES} x {password,master,localized} with engine ids of 5..32 and 200 octets, user names "
                "0..200 octets, boots/time of 1..4 content octets, request sizes across 127/128/255/256, on pooled buffers after arbitrary "
                "earlier traffic; for every datagram the agent zeroes the 12-octet field located by strict parsing and recomputes HMAC-MD5-96 / "
                "HMAC-SHA-96 (Python hmac) under the key the reference derives for the engine id in the message; flag set iff a key is held. "
                "Rig R: sign() on random messages of every size 60..4080 (rel), sampled under ASan and Miri. distinct = header geometries "
                "(incl. the auth-parameter offset) and size classes.")
    chk.assumptions = ["hashlib/hmac are correct", "reference key localization (RFC 3414 A.2, self-tested on A.3 vectors)"]
    C.self_test(cross=False)
    rig_p(chk, a.tier, a.seed)
    # (without privacy: a probe *encrypted* before the engine id is known is a state the Python layer never produces, and
    # what key it should use is nobody's statement)
    combos = [(au, None, kt) for au in ("md5", "sha1") for kt in ("password", "master")]
    orders = [["refresh", "same", "get", "get"], ["same", "refresh", "same", "get"], ["refresh", "same", "same", "get"], ["refresh", "other", "same", "get"],
              ["refresh", "get", "same", "get", "same", "get"], ["same", "same", "refresh", "same", "get", "get"],
              ["localized_first", "refresh", "get", "get"], ["nokey_first", "refresh", "get", "get"]]
    rj = [{"seed": a.seed * 17 + i, "combos": combos[i::4], "orders": orders * (1 if a.tier == "quick" else 20)} for i in range(4)]
    outs = runner.run_workers("checks.c09", "raw_worker", rj, variant="rel", timeout=1200)
    raw = {"cases": 0, "datagrams": 0}
    for o in outs:
        res = o["result"]
        if res is None:
            chk.violation("abort:raw", "raw-socket worker died rc=%s: %s" % (o["rc"], o["stderr"][-300:]), {})
            continue
        if "harness_error" in res:
            raise runner.HarnessError(res["harness_error"])
        for x in res["inconclusive"][:3]:
            chk.inconc(x)
        raw["cases"] += res["cases"]
        raw["datagrams"] += res["datagrams"]
        for b in res["bad"]:
            chk.violation(b["sig"], b["msg"], b)
    chk.extra["raw_socket_histories"] = raw
    chk.distinct.add("raw-socket-histories")
    chk.seen(raw["datagrams"])
    rig_r(chk, a.tier, a.seed)
    sys.exit(chk.finish())


if __name__ == "__main__":
    try:
        main()
    except (runner.HarnessError, build.BuildError) as e:
        print("HARNESS-ERROR: %s" % e)
        sys.exit(2)
