#!/usr/bin/env python3
"""Re-run, for every seeded fault kept under /verif/seeded/, one check that is recorded as catching it, against the
current /repo + current checks (patch applied to /repo, undone straight afterwards). Prints one line per fault and a
summary; faults whose patch no longer applies (the tree moved on) are listed separately.

usage: tools/regress_mutants.py [id-prefix ...]"""
import glob
import json
import os
import subprocess
import sys
import time

only = sys.argv[1:]
lost, gone, ok = [], [], 0
for m in sorted(glob.glob("/verif/seeded/*/meta.json")):
    d = json.load(open(m))
    sid = d["id"]
    if only and not any(sid.startswith(p) for p in only):
        continue
    patch = os.path.join(os.path.dirname(m), "patch.diff")
    if not os.path.exists(patch):
        continue
    det = d.get("detected_by", {})
    checks = [c for c, v in det.items() if str(v.get("quick_rc")) == "1"]
    # prefer the fault's own property
    checks.sort(key=lambda c: (c != d.get("property"), c))
    if not checks:
        print("%s: no catching check recorded" % sid, flush=True)
        continue
    if subprocess.run(["git", "-C", "/repo", "apply", "--check", patch], capture_output=True).returncode != 0:
        gone.append(sid)
        print("%s: patch no longer applies to /repo" % sid, flush=True)
        continue
    t = time.time()
    out = subprocess.run(["/verif/tools/try_mutant.sh", patch, checks[0]], capture_output=True, text=True).stdout
    rc = None
    for line in out.split("\n"):
        if line.startswith("== " + checks[0]):
            rc = line.split("rc=")[1].strip()
    if rc == "1":
        ok += 1
    else:
        lost.append((sid, checks[0], rc))
    print("%s: %s rc=%s (%.0fs)" % (sid, checks[0], rc, time.time() - t), flush=True)
print("still caught: %d; no longer caught: %s; patch no longer applies: %s" % (ok, lost, gone))
st = subprocess.check_output(["git", "-C", "/repo", "status", "--short"], text=True)
print("repo status:", st or "clean")
