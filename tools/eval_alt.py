#!/usr/bin/env python3
"""Like eval_mutants.py, but without touching /repo: the fault is applied inside its own scratch worktree and the check
is pointed at it (VERIF_REPO=<worktree> ./check <ID>, own build cache under .cache/alt-*).  Used while /repo is busy.
usage: ROUND=r7 tools/eval_alt.py C01 C02 ...   (extra checks per fault: CHECKS="C18,C13")"""
import glob, json, os, shutil, subprocess, sys, time
only = sys.argv[1:]
extra = [c for c in os.environ.get("CHECKS", "").split(",") if c]
for wt in sorted(glob.glob("/tmp/wt/C??")):
    pid = os.path.basename(wt)
    if only and pid not in only:
        continue
    md = wt + "/mutants/1"
    if not os.path.exists(md + "/patch.diff"):
        continue
    sid = "%s-%sm1" % (pid, os.environ.get("ROUND", ""))
    dst = "/verif/seeded/" + sid
    t = time.time()
    line = None
    if os.path.exists(dst + "/meta.json"):
        line = json.load(open(dst + "/meta.json")).get("confirm_line")
    if not line:
        c = subprocess.run(["/verif/tools/confirm_mutant.sh", wt, "1"], capture_output=True, text=True)
        res = [l for l in c.stdout.split("\n") if l.startswith("RESULT")]
        line = res[-1] if res else "RESULT ? (no result) " + c.stdout[-300:] + c.stderr[-300:]
    confirmed = "demo_clean_rc=0" in line and "build_rc=0" in line and "104 passed; 0 failed" in line and "demo_mutant_rc=0" not in line and "demo_mutant_rc=9" not in line
    os.makedirs(dst, exist_ok=True)
    for f in os.listdir(md):
        if os.path.isfile(os.path.join(md, f)) and os.path.getsize(os.path.join(md, f)) < 2_000_000:
            shutil.copy(os.path.join(md, f), dst)
    subprocess.run(["git", "-C", wt, "checkout", "-q", "--", "."])
    subprocess.run(["git", "-C", wt, "apply", md + "/patch.diff"], check=True)
    det = {}
    outs = ""
    try:
        for chk in [pid] + extra:
            env = dict(os.environ, VERIF_REPO=wt)
            p = subprocess.run(["/verif/check", chk], capture_output=True, text=True, env=env)
            sigs = [l.strip()[:220] for l in p.stdout.split("\n") if l.startswith("    ") and ":" in l][:6]
            det[chk] = {"quick_rc": str(p.returncode), "violation_lines": sigs}
            outs += "== %s rc=%s (VERIF_REPO=%s)\n%s\n" % (chk, p.returncode, wt, p.stdout[-4000:])
    finally:
        subprocess.run(["git", "-C", wt, "checkout", "-q", "--", "."])
    meta = {}
    if os.path.exists(dst + "/meta.json"):
        meta = json.load(open(dst + "/meta.json"))
    meta.update({"id": sid, "property": pid, "confirmed_independently": confirmed, "confirm_line": line,
                 "files": [l[6:].strip() for l in open(md + "/patch.diff") if l.startswith("+++ b/")],
                 "ran": ["tools/confirm_mutant.sh %s 1" % wt, "patch applied in the scratch worktree; VERIF_REPO=%s ./check %s" % (wt, " ".join([pid] + extra))],
                 "evaluated_at_repo_commit": subprocess.check_output(["git", "-C", wt, "rev-parse", "--short", "HEAD"], text=True).strip()})
    meta.setdefault("needs_to_manifest", "see NOTES.md")
    meta.setdefault("detected_by", {}).update(det)
    json.dump(meta, open(dst + "/meta.json", "w"), indent=1)
    open(dst + "/check_output.txt", "a").write(outs)
    print("%s confirmed=%s %s (%.0fs) %s" % (sid, confirmed, {k: v["quick_rc"] for k, v in det.items()}, time.time() - t,
                                              [v["violation_lines"][:1] for v in det.values() if v["quick_rc"] == "1"][:1]), flush=True)
