#!/bin/bash
# tools/try_mutant.sh <patch.diff> <check-id>... : apply a seeded fault to /repo, run the quick checks, undo it.
# Prints one line per check: <id> rc=<exit code> and the VIOLATION / summary lines.
patch="$1"; shift
cd /repo || exit 2
if ! git diff --quiet; then echo "/repo working tree is dirty; refusing"; exit 2; fi
git apply "$patch" || { echo "patch does not apply"; exit 2; }
trap 'git -C /repo checkout -- . ; git -C /repo clean -fdq src >/dev/null 2>&1' EXIT
for id in "$@"; do
  out=$(cd /verif && ./check "$id" --tier "${TIER:-quick}" --seed "${VERIF_SEED:-1}" 2>&1); rc=$?
  echo "== $id rc=$rc"
  echo "$out" | grep -E "^VIOLATION|^    [a-z].*:|^\[C|HARNESS|KNOWN" | cut -c1-260 | head -12
done
