#!/usr/bin/env python3
"""Regenerate /verif/MANIFEST.json from the table below (single source of truth)."""
import json
import os

HERE = os.path.dirname(os.path.dirname(os.path.abspath(__file__)))

TB = ("Trusted base: the independent references in /verif/vlib (BER encoder/strict decoder, RFC 3414 key derivation and HMAC via "
      "hashlib/hmac, pure-Python DES/AES self-tested against FIPS/NIST vectors and openssl), CPython, the kernel's loopback UDP, "
      "rustc/Miri/ASan themselves. Held on the executions observed, not proved.")

CHECKS = {
    "C01": dict(
        cat="exploration", ref="DESIGN.md section 4 C01",
        tech="runtime monitoring: catch_unwind/panic-hook oracle over structure-aware mutation in rel/dbg(overflow checks)/ASan/Miri builds + exception-class oracle at the Python API against a scripted hostile agent",
        text="Every decoder entry point and the privacy decrypt path are driven with ~10^6 (quick) / ~10^7 (thorough) systematically mutated, "
             "exhaustive-short and random datagrams under a panic monitor in release, debug (integer-overflow sanitizer), AddressSanitizer and "
             "Miri builds; the shipped .so is driven end-to-end with ~1.5x10^5 hostile replies that pass the outer checks for every "
             "version/security configuration x operation x sync/async, classifying every outcome. Exploration, not proof: 256^4080 inputs "
             "cannot be enumerated.",
        note=TB + " A clean ASan/Miri run is not memory safety for unreached paths."),
    "C02": dict(
        cat="exploration", ref="DESIGN.md section 4 C02",
        tech="runtime monitoring: reference-model oracle (independent BER encoder -> expected Python object) over generated responses, end-to-end through the shipped .so and decode-only in rel/dbg/ASan builds",
        text="An independent model draws names and values of every supported type at boundary and random points, encodes them with its own "
             "BER encoder (short and long-form lengths) and the scripted agent serves them in v1/v2c/v3 (plain/auth/DES/AES) to get, get_many, "
             "getnext and getbulk, sync and async; every delivered object is compared for exact equality and type. ~2x10^5 values decode-only "
             "plus ~3x10^4 end-to-end per quick run.",
        note=TB + " REALs are generated exactly representable so exact float comparison is sound; exotic ISO 6093 spellings are not generated."),
    "C03": dict(
        cat="exploration", ref="DESIGN.md section 4 C03",
        tech="runtime monitoring: every datagram emitted during random multi-session API programs is strict-decoded by an independent decoder and compared field-by-field with a model of the call (history oracle at the agent boundary); Miri/ASan on pool contention",
        text="Random programs of all API calls over 5-8 live sessions of different versions/credentials per process (plus 8 threads) with an "
             "agent that replies, drops, sends large or stray datagrams, so pooled buffers are reused in every state; each of ~6x10^4 datagrams "
             "per quick run must strict-decode (definite minimal lengths, minimal INTEGERs, nothing trailing) and match the model: version, "
             "credentials, engine id/boots/time of the last accepted agent message, flags, PDU type, bulk parameters, id ranges, OIDs in order "
             "bound to NULL, exactly one datagram per request. Buffer pool exercised under Miri (data races) and ASan.",
        note=TB + " Histories are sampled, not exhausted."),

    "C04": dict(
        cat="fault_enumeration", ref="DESIGN.md section 4 C04",
        tech="runtime monitoring: fault enumeration at a scripted agent (drop/duplicate/delay/reorder/rewrite/truncate) with unique serials per datagram; offline-style checker = executable receive-loop specification over the modelled socket queue",
        text="Scripts of 1..4 consecutive requests with per-request lists of injected datagrams are enumerated (exhaustively for 1 request x <= 2/3 "
             "datagrams and 2-3 requests over reduced sets, randomly for 3..4 requests) for v1, v2c, v3 noAuth and auth+priv, sync and async, "
             "get/get_many/getnext/getbulk; every datagram carries a unique INTEGER so the delivered value names the datagram that was accepted; "
             "the expected outcome (deliver this serial / SnmpDecodeError / TimeoutError) is computed from the ids actually seen on the wire; "
             "rewrites include ids aliasing modulo 2^32 and Reports with a foreign engine id / user / msgID (only the request-id test is bypassed "
             "for Reports). "
             "A mismatch is re-run twice with a long timeout before it counts.",
        note=TB + " Kernel-level reordering cannot be forced on loopback; reordering is produced by the agent's send order."),
    "C05": dict(
        cat="exploration", ref="DESIGN.md section 4 C05",
        tech="runtime monitoring: reference-model oracle (RFC 3416 agent over a sorted MIB vs list returned by the real iterators), exhaustive over all subsets of a 9-OID universe",
        text="A compliant reference agent serves every one of the 512 subsets of a 9-OID universe built around the bases (byte-prefix siblings, "
             "multi-octet arcs, entries before/after, base itself a leaf) for 8 bases, plus random MIBs up to 80 entries, across "
             "max_repetitions x agent cap x v1/v2c/v3 x sync/async x getnext/getbulk/fetch; the returned list must equal the model's subtree. "
             "Single-session histories are included: an earlier walk abandoned after one item, and a lost datagram followed by a retried next().",
        note=TB + " MIB values are never NULL."),
    "C06": dict(
        cat="exploration", ref="DESIGN.md section 4 C06",
        tech="runtime monitoring: online trace checker (executable walk specification) over requests seen by a hostile scripted agent and (oid,value) pairs yielded; exhaustive reply enumeration at depth 1 over a 35-varbind alphabet, bounded-depth beyond",
        text="Agent strategies are arbitrary reply sequences over 10 OIDs (incl. arcs whose BER encodings differ in length) x 5 value kinds: exhaustive for first replies of 0..2 (quick) / 0..3 "
             "(thorough) varbinds, depth 2 over continuing first replies, loop-forever agents, random to depth 8; getnext and getbulk, v1/v2c/v3, "
             "sync/async. The checker enforces containment, received order, strictly increasing yields, continuation from the last accepted OID, "
             "no request or yield after a stop condition, and termination within len(script)+1 requests (a logical bound); strategies with a lost "
             "datagram and a caller that retries next() on the same iterator are included.",
        note=TB + " Depth >= 3 is sampled. Where the statement leaves a choice every consistent outcome is accepted."),
    "C07": dict(
        cat="exploration", ref="DESIGN.md section 4 C07",
        tech="runtime monitoring: oracle written from the statement over scripted replies, exhaustive over kind-vectors up to length 4",
        text="All 781 vectors of varbind kinds {value, NULL, noSuchObject, noSuchInstance, endOfMibView} of length 0..4 (random for 5..6), with "
             "requested/foreign/duplicate OIDs and values of every type, plus Report-in-place-of-response and silence, for get and get_many x "
             "v1/v2c/v3 (noAuth/auth/DES/AES) x sync/async: return value or exception class must be the documented one; bursts of consecutive unanswered requests on one session; a "
             "timeout although a reply was sent is re-tried on fresh sessions and is a verdict at 3/3.",
        note=TB),
    "C08": dict(
        cat="exploration", ref="DESIGN.md section 4 C08",
        tech="runtime monitoring: denotation oracle over generated OID strings (decode of the datagram actually sent vs the OID the text denotes), Rust core at 10^5-10^7 strings and every Python entry point end-to-end",
        text="Strings over digits/dots/signs/blanks/letters (valid OIDs with arcs at every base-128 boundary up to 2^32-1 and 2..128 arcs; 17 "
             "malformed classes) go through SnmpOid::try_from and through get/get_many/getnext/getbulk/fetch; a must-accept string has to be "
             "sent as exactly its X.690 encoding and printed back identically; any other string is either refused before anything is sent or "
             "sent as exactly what it denotes - a datagram carrying any other OID is the violation; also after an abandoned walk of the same text "
             "on the same session.",
        note=TB),
    "C09": dict(
        cat="exploration", ref="DESIGN.md section 4 C09",
        tech="runtime monitoring: every authenticated datagram's HMAC-96 recomputed at the agent with hmac/hashlib under the reference-localized key; sign() differential at every message size under rel/ASan/Miri",
        text="v3 traffic over {MD5,SHA-1} x {none,DES,AES} x {password,master,localized} with engine ids 5..32/200 octets, user names 0..200, "
             "boots/time 1..4 octets and request sizes across the length-form boundaries so the auth-parameter offset takes > 100 distinct "
             "values, on pooled buffers after arbitrary traffic; each datagram's MAC is recomputed independently; flag set iff a key is held. "
             "Rig R signs random messages of every size 60..4080.",
        note=TB),
    "C10": dict(
        cat="fault_enumeration", ref="DESIGN.md section 4 C10",
        tech="runtime monitoring: full forgery matrix injected by the scripted agent ahead of the genuine reply, unique serials identify the accepted datagram",
        text="For every auth-holding configuration the complete matrix MAC {valid, zero, random, empty, 11/13 octets, one bit flipped in each "
             "octet} x auth flag x priv flag x {GetResponse, Report} x {encrypted, plaintext} is injected before the genuine reply; only a "
             "correctly MACed, auth-flagged (and, with privacy, encrypted) message may be the one delivered. On the pinned tree the incoming "
             "MAC and security level are not verified at all: recorded as known findings, one per forgery class; any other wrongly accepted "
             "or wrongly dropped reply is still a VIOLATION (the engine clock advances and restarts realistically; three consecutive requests "
             "whose genuine replies are not delivered = genuine-dropped).",
        note=TB + " Reports are not judged (the statement allows them unauthenticated)."),
    "C11": dict(
        cat="exploration", ref="DESIGN.md section 4 C11",
        tech="runtime monitoring: every msgData decrypted by independent DES-CBC/AES-CFB references and strict-parsed; history workloads on sessions and directly on PrivKey under rel/dbg/ASan/Miri",
        text="Sessions with DES/AES x digests x key types x boots/time run histories of sends, timeouts, receives of agent-encrypted replies "
             "(random salts, arbitrary padding) and oversized requests; each msgData must decrypt - key localized by the reference, IV from the "
             "message's own salt/boots/time - to exactly the expected scoped PDU plus < 1 block; values from agent-encrypted replies must match "
             "the MIB. The same histories run directly on PrivKey under ASan and Miri.",
        note=TB),
    "C12": dict(
        cat="exploration", ref="DESIGN.md section 4 C12",
        tech="runtime monitoring: hashlib oracle for password->master->localized derivations; installed keys observed through MAC/decryption of real traffic; exception-class oracle on malformed key material",
        text="Passwords of length 1..2^21 (dividing and not dividing 2^20) x engine ids 0..32 octets x both digests against RFC 3414 A.2 in "
             "hashlib; sessions with password/master/localized keys judged through their MACs and ciphertexts; ~3x10^4 malformed constructor / "
             "set_keys / helper calls (key lengths 0..64, algorithm codes 0..255, empty password) must end in acceptance or an ordinary "
             "exception, in release and overflow-checking builds.",
        note=TB),
    "C13": dict(
        cat="exploration", ref="DESIGN.md section 4 C13",
        tech="runtime monitoring: history checker at the agent: every request must carry the engine id learned/configured and the boots/time of the last accepted agent message, MAC and ciphertext valid under keys localized to that engine id",
        text="A scripted v3 engine changes boots/time on every reply; sessions with and without engine id x {noAuth,MD5,SHA-1} x {none,DES,AES} "
             "x key types x sync/async go through context entry, explicit refresh and mixed requests with non-matching datagrams (other "
             "boots/time) interleaved; > 100 configurations and ~2x10^4 datagrams per quick run are judged.",
        note=TB),
    "C14": dict(
        cat="exploration", ref="DESIGN.md section 4 C14",
        tech="runtime monitoring: offline history checker over all datagrams of a key installation (salt uniqueness, +1 monotonicity mod 2^32/2^64, boots prefix, no plaintext needle in clear); counter wrap reached through a verif hook",
        text="Per key installation 1.5x10^3 (quick) / 2.5x10^4 (thorough) mixed requests using the send halves, interleaved with receives that "
             "change boots, timeouts and set_keys(); the checker requires 8-octet salts, pairwise distinct, advancing by exactly one, DES "
             "salts prefixed by the header's boots, priv flag set, ciphertext decryptable, and the request's OID encoding absent from the "
             "datagram. Wrap-around at 2^32/2^64 is crossed through verif::set_salt in release and overflow-checking builds.",
        note=TB + " 2^32 messages cannot be sent; uniqueness beyond the run length rests on the counter structure observed."),
    "C15": dict(
        cat="exploration", ref="DESIGN.md section 4 C15",
        tech="runtime monitoring: differential round-trip oracle (independent minimal DER encoder + strict TLV walker) - exhaustive for every INTEGER of 1..3 content octets, boundary neighbourhoods, random; rel/dbg/ASan/Miri",
        text="Every INTEGER in -2^23..2^23-1 (16.7M values, exhaustive), +-N around every +-2^(8k-1)/+-2^(8k), i64::MIN/MAX and random values; "
             "OIDs; NULL; OCTET STRING fields of every length 0..4076; random v1/v2c/v3 Get/GetNext/GetBulk messages: encoding must equal the "
             "independent minimal encoding, pass the strict walker, and decode back to the original with nothing left; scoped PDUs encrypted by "
             "the library (DES, AES) must decrypt, by the library, to the same PDU.",
        note=TB + " Independent encoder/walker live in rharness/src/common.rs."),
    "C16": dict(
        cat="exploration", ref="DESIGN.md section 4 C16",
        tech="runtime monitoring: metamorphic oracle from_ber(x||s) == (s, value(x)) for every typed decoder; trailing-byte and nesting-tamper rejection for message layers; end-to-end position independence",
        text="For each of 18 decoders x ranges over model-generated encodings that decode alone and s over empty/one octet/valid TLV/random/"
             "digit suffixes: value and leftover must be independent of s. Every corpus message with trailing bytes, and every short-form inner "
             "length raised past its parent while the bytes exist, must be rejected. End-to-end: a value followed by extra octets in its varbind "
             "and by further varbinds is delivered unchanged or the reply is rejected; lengths of constructed elements are also lowered, and "
             "encrypted replies that declare more than they carry must never yield a value.",
        note=TB + " Values are rendered through the verif hook typed_from_ber/project."),
    "C17": dict(
        cat="exploration", ref="DESIGN.md section 4 C17",
        tech="runtime monitoring: octet-by-octet request-size sweep with an independent size calculator as oracle; shadow-model monitor over random Buffer operation sequences natively, under ASan and Miri",
        text="get_many OID lists are constructed so the reference-encoded request takes every length around every nesting-level boundary and "
             "the 4080-octet limit (thorough: every length 40..4400) for v1/v2c/v3 noAuth/auth/DES/AES, plus communities and user names up to "
             "4100 octets: too big -> SnmpEncodeError and nothing on the wire, fitting -> sent, strict-equal, exact size; the next request is "
             "normal. ~10^6 random Buffer operations against a Vec shadow, also under ASan and Miri; valgrind memcheck on an end-to-end "
             "workload checks that every octet reaching send(2) is defined.",
        note=TB + " With privacy a 48-octet band below the limit accepts either outcome."),
    "C18": dict(
        cat="fault_enumeration", ref="DESIGN.md section 4 C18",
        tech="runtime monitoring: arrival-schedule enumeration at the scripted agent with wall-clock oracle guarded by a scheduler-drift probe, the agent's own send log and triple serial confirmation",
        text="Schedules of k in {0,1,3,6(,2,12)} non-matching datagrams spaced 0.6 x timeout apart, optionally followed by the matching reply "
             "after the deadline (must not be delivered) or strays at 0.12 x timeout then the reply at 0.75 x timeout (must be delivered), for "
             "sync/async x v1/v2c/v3: the call must end within timeout + 0.25 s with the right outcome. A suspected violation counts only if "
             "it repeats 3/3 with low measured scheduler drift and the agent's datagrams on schedule. Also: a history on one session (timeout "
             "after a stray, then a late-but-in-time reply), a rate-limited session, and bursts ending in the last millisecond before the deadline.",
        note=TB + " Wall-clock property: the verdict is guarded, not exact; guards firing make a case inconclusive."),
    "C19": dict(
        cat="exploration", ref="DESIGN.md section 4 C19",
        tech="runtime monitoring: invariant assertions on hooked policer state over generated call-time sequences; exhaustive phase space for small intervals with the real implementation as transition function; virtual-clock sessions with arrivals stamped at the agent",
        text="The real RPSPolicer is driven with ~4x10^5 generated call times (gaps 0, 1 ns, d-1, d, d+1, 2d, 7.3d, 10^6 d, random; 8 rates) "
             "checking every delay in (0,d] and every window of releases; for d in {1,2,3,7,10,64} ns every (phase, gap) transition is "
             "executed and the local invariants that imply the window bound are asserted on _prev; rate-limited sync/async sessions under a "
             "virtual clock must show the same bound on agent-observed arrivals for every request path, also while the agent is silent and "
             "every request times out; invalid rates raise ValueError.",
        note=TB + " The exhaustive part covers small intervals only; larger ones rely on translation invariance plus sampling."),
}

NOT_YET = "check not built yet in this session (work in progress; see DESIGN.md for the planned monitor)"


def main():
    props = [json.loads(l) for l in open(os.path.join(HERE, "properties.jsonl"))]
    checks, na = [], []
    for p in props:
        pid = p["id"]
        c = CHECKS.get(pid)
        if not c:
            na.append({"property_id": pid, "reason": NOT_YET})
            continue
        checks.append({
            "property_id": pid,
            "quick_cmd": "./check %s --tier quick" % pid,
            "thorough_cmd": "./check %s --tier thorough" % pid,
            "evidence_file": "/verif/evidence/%s.json" % pid,
            "replay_cmd_template": "./check %s --replay {path}" % pid,
            "engine": "rigs",
            "level_claimed": {"category": c["cat"], "text": c["text"], "design_ref": c["ref"]},
            "level_note": c["note"],
            "technique": c["tech"],
        })
    m = {
        "version": 1,
        "setup_cmd": "./setup.sh",
        "hooks": {
            "guard": "cargo feature 'verif' (cfg(feature = \"verif\")), off by default",
            "enable": "the harness package /verif/rharness (generated Cargo.toml, [lib] path=/repo/src/lib.rs) enables feature 'verif' by default; "
                      "cargo build --features verif in /repo does the same",
            "baseline_off_cmd": "cd /repo && cargo test --workspace --no-fail-fast --offline",
            "source_commits": json.load(open(os.path.join(HERE, "tools", "hook_commits.json"))),
            "add_only": True,
        },
        "engines": [
            {"name": "rigs", "path": "/verif/vlib", "serves_properties": [c["property_id"] for c in checks],
             "kind_free_text": "Rig R: Rust harness binaries (/verif/rharness) linked against /repo/src built as rlib, run natively (release, "
                               "debug+overflow checks), under AddressSanitizer and under Miri. Rig P: the cdylib built from /repo/src loaded "
                               "into CPython with the repo's Python package, driven against a scripted SNMP agent on loopback UDP; reference "
                               "models and history checkers in /verif/vlib and /verif/checks."},
        ],
        "checks": checks,
        "not_applicable": na,
        "notes": "Runtime monitoring and sanitizers only. Exit codes: 0 held on what was observed; 1 VIOLATION; 2 harness error / coverage floor "
                 "not met. Known findings: /verif/known_findings.json. VERIF_SEED seeds every PRNG.",
    }
    with open(os.path.join(HERE, "MANIFEST.json"), "w") as f:
        json.dump(m, f, indent=1)
    print("MANIFEST.json: %d checks, %d not_applicable" % (len(checks), len(na)))


if __name__ == "__main__":
    main()
