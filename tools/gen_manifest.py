#!/usr/bin/env python3
"""Regenerate /verif/MANIFEST.json from the table below (single source of truth)."""
import json
import os

HERE = os.path.dirname(os.path.dirname(os.path.abspath(__file__)))

TB = ("Trusted base: the independent references in /verif/vlib (BER encoder/strict decoder, RFC 3414 key derivation and HMAC via "
      "hashlib/hmac, pure-Python DES/AES self-tested against FIPS/NIST vectors and openssl), CPython, the kernel's loopback UDP, "
      "rustc/Miri/ASan themselves. Held on the executions observed, not proved.")

CHECKS = {
    "C01": dict(
        cat="exploration", ref="DESIGN.md section 4 C01",
        tech="runtime monitoring: catch_unwind/panic-hook oracle over structure-aware mutation in rel/dbg(overflow checks)/ASan/Miri builds + exception-class oracle at the Python API against a scripted hostile agent",
        text="Every decoder entry point and the privacy decrypt path are driven with ~10^6 (quick) / ~10^7 (thorough) systematically mutated, "
             "exhaustive-short and random datagrams under a panic monitor in release, debug (integer-overflow sanitizer), AddressSanitizer and "
             "Miri builds; the shipped .so is driven end-to-end with ~1.5x10^5 hostile replies that pass the outer checks for every "
             "version/security configuration x operation x sync/async, classifying every outcome. Exploration, not proof: 256^4080 inputs "
             "cannot be enumerated.",
        note=TB + " A clean ASan/Miri run is not memory safety for unreached paths."),
    "C02": dict(
        cat="exploration", ref="DESIGN.md section 4 C02",
        tech="runtime monitoring: reference-model oracle (independent BER encoder -> expected Python object) over generated responses, end-to-end through the shipped .so and decode-only in rel/dbg/ASan builds",
        text="An independent model draws names and values of every supported type at boundary and random points, encodes them with its own "
             "BER encoder (short and long-form lengths) and the scripted agent serves them in v1/v2c/v3 (plain/auth/DES/AES) to get, get_many, "
             "getnext and getbulk, sync and async; every delivered object is compared for exact equality and type. ~2x10^5 values decode-only "
             "plus ~3x10^4 end-to-end per quick run.",
        note=TB + " REALs are generated exactly representable so exact float comparison is sound; exotic ISO 6093 spellings are not generated."),
    "C03": dict(
        cat="exploration", ref="DESIGN.md section 4 C03",
        tech="runtime monitoring: every datagram emitted during random multi-session API programs is strict-decoded by an independent decoder and compared field-by-field with a model of the call (history oracle at the agent boundary); Miri/ASan on pool contention",
        text="Random programs of all API calls over 5-8 live sessions of different versions/credentials per process (plus 8 threads) with an "
             "agent that replies, drops, sends large or stray datagrams, so pooled buffers are reused in every state; each of ~6x10^4 datagrams "
             "per quick run must strict-decode (definite minimal lengths, minimal INTEGERs, nothing trailing) and match the model: version, "
             "credentials, engine id/boots/time of the last accepted agent message, flags, PDU type, bulk parameters, id ranges, OIDs in order "
             "bound to NULL, exactly one datagram per request. Buffer pool exercised under Miri (data races) and ASan.",
        note=TB + " Histories are sampled, not exhausted."),
}

NOT_YET = "check not built yet in this session (work in progress; see DESIGN.md for the planned monitor)"


def main():
    props = [json.loads(l) for l in open(os.path.join(HERE, "properties.jsonl"))]
    checks, na = [], []
    for p in props:
        pid = p["id"]
        c = CHECKS.get(pid)
        if not c:
            na.append({"property_id": pid, "reason": NOT_YET})
            continue
        checks.append({
            "property_id": pid,
            "quick_cmd": "./check %s --tier quick" % pid,
            "thorough_cmd": "./check %s --tier thorough" % pid,
            "evidence_file": "/verif/evidence/%s.json" % pid,
            "replay_cmd_template": "./check %s --replay {path}" % pid,
            "engine": "rigs",
            "level_claimed": {"category": c["cat"], "text": c["text"], "design_ref": c["ref"]},
            "level_note": c["note"],
            "technique": c["tech"],
        })
    m = {
        "version": 1,
        "setup_cmd": "./setup.sh",
        "hooks": {
            "guard": "cargo feature 'verif' (cfg(feature = \"verif\")), off by default",
            "enable": "the harness package /verif/rharness (generated Cargo.toml, [lib] path=/repo/src/lib.rs) enables feature 'verif' by default; "
                      "cargo build --features verif in /repo does the same",
            "baseline_off_cmd": "cd /repo && cargo test --workspace --no-fail-fast --offline",
            "source_commits": json.load(open(os.path.join(HERE, "tools", "hook_commits.json"))),
            "add_only": True,
        },
        "engines": [
            {"name": "rigs", "path": "/verif/vlib", "serves_properties": [c["property_id"] for c in checks],
             "kind_free_text": "Rig R: Rust harness binaries (/verif/rharness) linked against /repo/src built as rlib, run natively (release, "
                               "debug+overflow checks), under AddressSanitizer and under Miri. Rig P: the cdylib built from /repo/src loaded "
                               "into CPython with the repo's Python package, driven against a scripted SNMP agent on loopback UDP; reference "
                               "models and history checkers in /verif/vlib and /verif/checks."},
        ],
        "checks": checks,
        "not_applicable": na,
        "notes": "Runtime monitoring and sanitizers only. Exit codes: 0 held on what was observed; 1 VIOLATION; 2 harness error / coverage floor "
                 "not met. Known findings: /verif/known_findings.json. VERIF_SEED seeds every PRNG.",
    }
    with open(os.path.join(HERE, "MANIFEST.json"), "w") as f:
        json.dump(m, f, indent=1)
    print("MANIFEST.json: %d checks, %d not_applicable" % (len(checks), len(na)))


if __name__ == "__main__":
    main()
