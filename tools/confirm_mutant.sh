#!/bin/bash
# tools/confirm_mutant.sh <worktree> <n>: confirm a seeded fault independently in its scratch worktree:
# demo passes on HEAD; with the patch: builds, 104 tests pass, demo fails. Leaves the worktree at HEAD.
WT="$1"; N="$2"; M="$WT/mutants/$N"
PY=/root/.pyenv/versions/3.11.7/bin/python3
cd "$WT" || exit 2
git checkout -q -- . || exit 2
demo=""; for f in "$M"/demo.sh "$M"/demo.py "$M"/demo.*; do [ -f "$f" ] && { demo="$f"; break; }; done
run_demo() {
  case "$demo" in
    *.py) PYTHONPATH="$WT/src" timeout 300 $PY "$demo" >/tmp/demo.$$.out 2>&1 ;;
    *.sh) timeout 600 bash "$demo" >/tmp/demo.$$.out 2>&1 ;;
    *.rs) echo "rust demo: see NOTES" >/tmp/demo.$$.out; return 99 ;;
    *) return 98 ;;
  esac
}
build() { cargo build --offline >/tmp/build.$$.out 2>&1 && cp target/debug/libgufo_snmp.so src/gufo/snmp/_fast.so; }
build || { echo "RESULT $WT#$N: clean build failed"; exit 1; }
run_demo; rc_clean=$?
git apply --check "$M/patch.diff" || { echo "RESULT $WT#$N: patch does not apply"; exit 1; }
git apply "$M/patch.diff"
build; rc_build=$?
tests=$(cargo test --offline 2>&1 | grep "test result" | head -1)
run_demo; rc_mut=$?
tail -3 /tmp/demo.$$.out | cut -c1-200
git checkout -q -- . ; git clean -fdq src >/dev/null 2>&1
build
echo "RESULT $(basename $WT)#$N: demo_clean_rc=$rc_clean build_rc=$rc_build tests='$tests' demo_mutant_rc=$rc_mut files=$(grep '^+++ ' $M/patch.diff | sed 's/+++ b\///' | tr '\n' ' ')"
rm -f /tmp/demo.$$.out /tmp/build.$$.out
