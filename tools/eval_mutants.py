#!/usr/bin/env python3
"""Confirm each sub-agent mutant independently, file it under /verif/seeded/, run the property's quick check
against it (applied to /repo, undone straight afterwards) and record whether it was detected."""
import glob, json, os, shutil, subprocess, sys, time
only = sys.argv[1:]
for wt in sorted(glob.glob("/tmp/wt/C??")):
    pid = os.path.basename(wt)
    for md in sorted(glob.glob(wt + "/mutants/[0-9]")):
        n = os.path.basename(md)
        sid = "%s-%sm%s" % (pid, os.environ.get("ROUND", ""), n)
        if only and sid not in only and pid not in only:
            continue
        dst = "/verif/seeded/" + sid
        if os.path.exists(dst + "/meta.json") and not only:
            continue
        if not os.path.exists(md + "/patch.diff"):
            continue
        t = time.time()
        c = subprocess.run(["/verif/tools/confirm_mutant.sh", wt, n], capture_output=True, text=True)
        res = [l for l in c.stdout.split("\n") if l.startswith("RESULT")]
        line = res[-1] if res else "RESULT ? (no result) " + c.stdout[-300:] + c.stderr[-300:]
        confirmed = "demo_clean_rc=0" in line and "build_rc=0" in line and "104 passed; 0 failed" in line and "demo_mutant_rc=0" not in line and "demo_mutant_rc=9" not in line
        os.makedirs(dst, exist_ok=True)
        for f in os.listdir(md):
            if os.path.isfile(os.path.join(md, f)) and os.path.getsize(os.path.join(md, f)) < 2_000_000:
                shutil.copy(os.path.join(md, f), dst)
        d = subprocess.run(["/verif/tools/try_mutant.sh", md + "/patch.diff", pid], capture_output=True, text=True)
        out = d.stdout
        rc = None
        for l in out.split("\n"):
            if l.startswith("== " + pid):
                rc = l.split("rc=")[1].strip()
        sigs = [l.strip()[:200] for l in out.split("\n") if l.startswith("    ") and ":" in l][:6]
        meta = {"id": sid, "property": pid, "confirmed_independently": confirmed, "confirm_line": line,
                "files": [l[6:] for l in open(md + "/patch.diff") if l.startswith("+++ b/")],
                "ran": ["tools/confirm_mutant.sh %s %s" % (wt, n), "tools/try_mutant.sh seeded/%s/patch.diff %s" % (sid, pid)],
                "needs_to_manifest": "see NOTES.md", "detected_by": {pid: {"quick_rc": rc, "violation_lines": sigs}},
                "evaluated_at_repo_commit": subprocess.check_output(["git", "-C", "/repo", "rev-parse", "--short", "HEAD"], text=True).strip()}
        json.dump(meta, open(dst + "/meta.json", "w"), indent=1)
        open(dst + "/check_output.txt", "w").write(out)
        print("%s confirmed=%s check_rc=%s (%.0fs) %s" % (sid, confirmed, rc, time.time() - t, sigs[:1]), flush=True)
st = subprocess.check_output(["git", "-C", "/repo", "status", "--short"], text=True)
print("repo status:", st or "clean")
