#!/bin/bash
# tools/sweep.sh <tier> <seed>... : run every registered check serially at the given seeds, one summary line each.
# Logs under .cache/sweep/<tier>-<seed>/<id>.log ; exit 0 only when every run exited 0 without a VIOLATION line.
tier="$1"; shift
cd "$(dirname "$0")/.." || exit 2
bad=0
for seed in "$@"; do
  d=.cache/sweep/$tier-$seed; mkdir -p "$d"
  for n in $(seq -w 1 19); do
    id=C$n
    t0=$(date +%s)
    VERIF_SEED=$seed ./check "$id" --tier "$tier" > "$d/$id.log" 2>&1; rc=$?
    v=$(grep -c '^VIOLATION' "$d/$id.log"); k=$(grep -c '^KNOWN-FINDING' "$d/$id.log"); i=$(grep -c 'INCONCLUSIVE' "$d/$id.log")
    echo "$tier seed=$seed $id rc=$rc violations=$v known=$k inconclusive=$i $(( $(date +%s) - t0 ))s"
    if [ "$rc" != 0 ] || [ "$v" != 0 ]; then bad=1; fi
  done
done
exit $bad
